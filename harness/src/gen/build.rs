//! Program builder: generates a program *while executing it* on a scratch
//! composer with the intended inputs, so constants can be solved from the
//! actual witness values and the resulting instance is satisfied by
//! construction (R-SAT confirms that independently).

use std::sync::Arc;

use dusk_bls12_381::BlsScalar;
use dusk_jubjub::{JubJubAffine, JubJubExtended, JubJubScalar, GENERATOR_EXTENDED, GENERATOR_NUMS_EXTENDED};
use dusk_plonk::prelude::{Composer, Error};
use rand_core::RngCore;

use super::program::*;
use crate::util::{pool_scalar, pow2, rand_scalar};

pub struct Builder {
    pub prog: Program,
    pub inputs: Inputs,
    pub c: Composer,
    pub regs: Regs,
    /// registers known to hold 0/1
    pub bits: Vec<Reg>,
    /// registers known to hold values below 2^k: (reg, k)
    pub small: Vec<(Reg, usize)>,
    /// point registers known to hold subgroup points
    pub sub_points: Vec<PReg>,
    pub families: std::collections::BTreeSet<&'static str>,
}

impl Default for Builder {
    fn default() -> Self {
        Self::new()
    }
}

impl Builder {
    pub fn new() -> Self {
        let mut regs = Regs::default();
        regs.s.push(Composer::ZERO);
        regs.s.push(Composer::ONE);
        regs.p.push(Composer::IDENTITY.into());
        Builder {
            prog: Program::default(),
            inputs: Inputs::default(),
            c: Composer::initialized(),
            regs,
            bits: vec![0, 1],
            small: vec![(0, 0), (1, 1)],
            sub_points: vec![0],
            families: Default::default(),
        }
    }

    pub fn rows(&self) -> usize {
        self.c.constraints()
    }

    pub fn val(&self, r: Reg) -> BlsScalar {
        self.c[self.regs.s[r]]
    }

    pub fn pval(&self, p: PReg) -> (BlsScalar, BlsScalar) {
        let wp = self.regs.p[p];
        (self.c[*wp.x()], self.c[*wp.y()])
    }

    pub fn nregs(&self) -> usize {
        self.regs.s.len()
    }

    pub fn last(&self) -> Reg {
        self.regs.s.len() - 1
    }

    pub fn last_p(&self) -> PReg {
        self.regs.p.len() - 1
    }

    pub fn push(&mut self, op: Op) -> Result<(), Error> {
        exec_op(&op, &self.inputs, &mut self.c, &mut self.regs)?;
        let fam = match &op {
            Op::RangeBits(..) | Op::RangePairs(..) | Op::RangeSeam(..) => "range",
            Op::LogicAnd(..) | Op::LogicXor(..) => "logic",
            Op::MulGenerator(..) | Op::SeamFixedBase(..) => "fixed_base",
            Op::AddPoint(..) | Op::SubPoint(..) | Op::MulPoint(..) | Op::AssertTorsionFree(_)
            | Op::SeamAddPoint(..) | Op::SeamTorsionFree(..) => "variable_base",
            Op::Public(_) | Op::PublicPoint(_) | Op::AssertEqPublicPoint(..) => "public_input",
            _ => "arithmetic",
        };
        self.families.insert(fam);
        if let Op::Gate { pi, .. } | Op::EvalOut { pi, .. } | Op::GateAdd { pi, .. } | Op::GateMul { pi, .. }
        | Op::Raw { pi, .. } | Op::AssertEqConst(_, _, pi) = &op
        {
            if *pi != Pi::None {
                self.families.insert("public_input");
            }
        }
        self.prog.ops.push(op);
        Ok(())
    }

    pub fn scalar_input(&mut self, v: BlsScalar) -> usize {
        self.inputs.scalars.push(v);
        self.prog.n_scalar_inputs = self.inputs.scalars.len();
        self.inputs.scalars.len() - 1
    }

    pub fn point_input(&mut self, p: JubJubExtended) -> usize {
        self.inputs.points.push(p);
        self.prog.n_point_inputs = self.inputs.points.len();
        self.inputs.points.len() - 1
    }

    pub fn digits_input(&mut self, d: [i8; 256]) -> usize {
        self.inputs.digits.push(d);
        self.prog.n_digit_inputs = self.inputs.digits.len();
        self.inputs.digits.len() - 1
    }

    /// append_witness(v) as a fresh input; returns the register
    pub fn witness(&mut self, v: BlsScalar) -> Reg {
        let i = self.scalar_input(v);
        self.push(Op::Witness(i)).unwrap();
        self.last()
    }

    pub fn finish(self) -> (Arc<Program>, Inputs) {
        (Arc::new(self.prog), self.inputs)
    }
}

pub fn sel_pool<R: RngCore>(rng: &mut R) -> BlsScalar {
    match rng.next_u32() % 8 {
        0 | 1 => BlsScalar::zero(),
        2 | 3 => BlsScalar::one(),
        4 => -BlsScalar::one(),
        5 => BlsScalar::from(2u64),
        6 => BlsScalar::from(rng.next_u64() % 1000),
        _ => rand_scalar(rng),
    }
}

pub fn subgroup_point<R: RngCore>(rng: &mut R) -> JubJubExtended {
    match rng.next_u32() % 6 {
        0 => JubJubExtended::identity(),
        1 => GENERATOR_EXTENDED,
        2 => GENERATOR_NUMS_EXTENDED,
        3 => -GENERATOR_EXTENDED,
        _ => GENERATOR_EXTENDED * JubJubScalar::from(rng.next_u64()),
    }
}

fn bits_of(v: &BlsScalar) -> usize {
    let b = v.to_bits();
    for i in (0..256).rev() {
        if b[i] != 0 {
            return i + 1;
        }
    }
    0
}

fn pick_reg<R: RngCore>(b: &Builder, rng: &mut R) -> Reg {
    let n = b.nregs();
    // bias towards recent registers, keep ZERO/ONE reachable
    if rng.next_u32() % 4 == 0 {
        rng.next_u32() as usize % n
    } else {
        n - 1 - (rng.next_u32() as usize % n.min(8))
    }
}

#[derive(Clone, Debug)]
pub struct GenCfg {
    pub arith: bool,
    pub range: bool,
    pub logic: bool,
    pub ecc_var: bool,
    pub ecc_fixed: bool,
    pub public: bool,
    pub raw: bool,
    /// allow the expensive components (mul_point ~2300 rows, mul_generator ~330 rows)
    pub heavy: bool,
}

impl GenCfg {
    pub fn all() -> Self {
        GenCfg { arith: true, range: true, logic: true, ecc_var: true, ecc_fixed: true, public: true, raw: true, heavy: false }
    }
    pub fn arith_only() -> Self {
        GenCfg { arith: true, range: false, logic: false, ecc_var: false, ecc_fixed: false, public: true, raw: false, heavy: false }
    }
}

/// Solve q_c so that the arithmetic row over (a,b,c,d) with selectors s and
/// public input pi holds.
pub fn solve_qc(s: &mut Sel6, a: BlsScalar, b: BlsScalar, c: BlsScalar, d: BlsScalar, pi: BlsScalar) {
    s[5] = -(s[0] * a * b + s[1] * a + s[2] * b + s[3] * c + s[4] * d + pi);
}

/// Append one random op that keeps the instance satisfied. Returns false if
/// nothing was appended (e.g. family disabled by the dice).
pub fn random_sat_op<R: RngCore>(b: &mut Builder, rng: &mut R, cfg: &GenCfg, room: usize) -> bool {
    let dice = rng.next_u32() % 100;
    match dice {
        0..=7 => {
            let v = pool_scalar(rng);
            b.witness(v);
        }
        8..=10 => {
            let k = pool_scalar(rng);
            b.push(Op::Constant(k)).unwrap();
        }
        11..=15 if cfg.public => {
            let i = b.scalar_input(pool_scalar(rng));
            b.push(Op::Public(i)).unwrap();
        }
        16..=27 if cfg.arith => {
            // general gate with solved constant, optionally a public input
            let mut s: Sel6 = [sel_pool(rng), sel_pool(rng), sel_pool(rng), sel_pool(rng), sel_pool(rng), BlsScalar::zero()];
            let w = [pick_reg(b, rng), pick_reg(b, rng), pick_reg(b, rng), pick_reg(b, rng)];
            let (pi, piv) = rand_pi(b, rng, cfg);
            solve_qc(&mut s, b.val(w[0]), b.val(w[1]), b.val(w[2]), b.val(w[3]), piv);
            b.push(Op::Gate { s, pi, w }).unwrap();
        }
        28..=37 if cfg.arith => {
            let mut s: Sel6 = [sel_pool(rng), sel_pool(rng), sel_pool(rng), sel_pool(rng), sel_pool(rng), sel_pool(rng)];
            let w = [pick_reg(b, rng), pick_reg(b, rng), pick_reg(b, rng)];
            let (pi, piv) = rand_pi(b, rng, cfg);
            match rng.next_u32() % 3 {
                0 => {
                    if s[3] == BlsScalar::zero() {
                        // no output: the inputs alone must satisfy the row
                        solve_qc(&mut s, b.val(w[0]), b.val(w[1]), BlsScalar::zero(), b.val(w[2]), piv);
                    }
                    b.push(Op::EvalOut { s, pi, w }).unwrap()
                }
                1 => b.push(Op::GateAdd { s, pi, w }).unwrap(),
                _ => b.push(Op::GateMul { s, pi, w }).unwrap(),
            }
        }
        38..=41 if cfg.arith => {
            let a = pick_reg(b, rng);
            // an equal partner: the same register, or a fresh copy through gate_add
            if rng.next_u32() % 2 == 0 {
                b.push(Op::AssertEq(a, a)).unwrap();
            } else {
                let s: Sel6 = [BlsScalar::zero(), BlsScalar::one(), BlsScalar::zero(), BlsScalar::zero(), BlsScalar::zero(), BlsScalar::zero()];
                b.push(Op::GateAdd { s, pi: Pi::None, w: [a, 0, 0] }).unwrap();
                let c = b.last();
                b.push(Op::AssertEq(a, c)).unwrap();
            }
        }
        42..=44 if cfg.arith => {
            let a = pick_reg(b, rng);
            let (pi, piv) = rand_pi(b, rng, cfg);
            let k = b.val(a) - piv;
            b.push(Op::AssertEqConst(a, k, pi)).unwrap();
        }
        45..=52 if cfg.arith => {
            let bit = BlsScalar::from((rng.next_u32() % 2) as u64);
            let r = b.witness(bit);
            b.push(Op::Boolean(r)).unwrap();
            b.bits.push(r);
            let x = pick_reg(b, rng);
            let y = pick_reg(b, rng);
            match rng.next_u32() % 3 {
                0 => b.push(Op::Select(r, x, y)).unwrap(),
                1 => b.push(Op::SelectOne(r, x)).unwrap(),
                _ => b.push(Op::SelectZero(r, x)).unwrap(),
            }
        }
        53..=62 if cfg.range => {
            let k = [0usize, 1, 2, 3, 7, 8, 9, 15, 16, 17, 31, 32, 33, 63, 64, 65, 100, 127, 128, 200, 252, 253, 254][rng.next_u32() as usize % 23];
            let v = if k == 0 { BlsScalar::zero() } else {
                let r = rand_scalar(rng);
                // reduce to k bits
                let bits = r.to_bits();
                let mut acc = BlsScalar::zero();
                for i in (0..k.min(254)).rev() {
                    acc = acc + acc;
                    if bits[i] != 0 {
                        acc += BlsScalar::one();
                    }
                }
                acc
            };
            let reg = b.witness(v);
            b.small.push((reg, k));
            let width = (bits_of(&v) + rng.next_u32() as usize % 4).min(256).max(if k == 0 { 0 } else { bits_of(&v) });
            match rng.next_u32() % 3 {
                0 => b.push(Op::RangeBits(width, reg)).unwrap(),
                1 => b.push(Op::RangeSeam(width, reg)).unwrap(),
                _ => {
                    let pairs = width.div_ceil(2).min(128);
                    b.push(Op::RangePairs(pairs, reg)).unwrap()
                }
            }
        }
        63..=69 if cfg.logic => {
            let p = [0usize, 1, 2, 3, 4, 8, 16, 31, 32, 64, 100, 126, 127][rng.next_u32() as usize % 13];
            let p = if room < 400 { p.min(8) } else { p };
            let x = pick_reg(b, rng);
            let y = pick_reg(b, rng);
            if rng.next_u32() % 2 == 0 {
                b.push(Op::LogicAnd(p, x, y)).unwrap()
            } else {
                b.push(Op::LogicXor(p, x, y)).unwrap()
            }
        }
        70..=73 if cfg.range && room >= 400 => {
            let n = [0usize, 1, 2, 8, 63, 64, 128, 200, 253, 254][rng.next_u32() as usize % 10];
            let x = pick_reg(b, rng);
            b.push(Op::Truncate(n, x)).unwrap();
        }
        74..=76 if cfg.arith => {
            let k = 1 + rng.next_u32() as usize % 16;
            let v = BlsScalar::from(rng.next_u64() % (1u64 << k));
            let reg = b.witness(v);
            let n = (k + rng.next_u32() as usize % 3).clamp(1, 256);
            b.push(Op::Decomposition(n, reg)).unwrap();
            for j in 0..n {
                let r = b.last() - j;
                b.bits.push(r);
            }
        }
        77..=90 if cfg.ecc_var => {
            let which = rng.next_u32() % 9;
            let pick_sub = |b: &Builder, rng: &mut R| b.sub_points[rng.next_u32() as usize % b.sub_points.len()];
            match which {
                0 => {
                    let i = b.point_input(subgroup_point(rng));
                    b.push(Op::Point(i)).unwrap();
                    let p = b.last_p();
                    b.push(Op::AssertTorsionFree(p)).unwrap();
                    let q = b.last_p();
                    b.sub_points.push(q);
                }
                1 => {
                    b.push(Op::ConstantPoint(subgroup_point(rng))).unwrap();
                    let q = b.last_p();
                    b.sub_points.push(q);
                }
                2 if cfg.public => {
                    let i = b.point_input(subgroup_point(rng));
                    b.push(Op::PublicPoint(i)).unwrap();
                    let q = b.last_p();
                    b.sub_points.push(q);
                }
                3 => {
                    let (x, y) = (pick_sub(b, rng), pick_sub(b, rng));
                    b.push(Op::AddPoint(x, y)).unwrap();
                    let q = b.last_p();
                    b.sub_points.push(q);
                }
                4 => {
                    let (x, y) = (pick_sub(b, rng), pick_sub(b, rng));
                    b.push(Op::SubPoint(x, y)).unwrap();
                    let q = b.last_p();
                    b.sub_points.push(q);
                }
                5 => {
                    let x = pick_sub(b, rng);
                    b.push(Op::NegPoint(x)).unwrap();
                    let q = b.last_p();
                    b.sub_points.push(q);
                }
                6 => {
                    let bit = b.witness(BlsScalar::from((rng.next_u32() % 2) as u64));
                    let x = pick_sub(b, rng);
                    b.push(Op::SelectIdentity(bit, x)).unwrap();
                    let q = b.last_p();
                    b.sub_points.push(q);
                }
                7 => {
                    let bit = b.witness(BlsScalar::from((rng.next_u32() % 2) as u64));
                    b.push(Op::Boolean(bit)).unwrap();
                    let (x, y) = (pick_sub(b, rng), pick_sub(b, rng));
                    b.push(Op::SelectPoint(bit, x, y)).unwrap();
                    let q = b.last_p();
                    b.sub_points.push(q);
                }
                _ => {
                    let x = pick_sub(b, rng);
                    if cfg.public && rng.next_u32() % 2 == 0 {
                        let (u, v) = b.pval(x);
                        let i = b.point_input(JubJubExtended::from(JubJubAffine::from_raw_unchecked(u, v)));
                        b.push(Op::AssertEqPublicPoint(x, i)).unwrap();
                    } else {
                        b.push(Op::AssertEqPoint(x, x)).unwrap();
                    }
                }
            }
        }
        91..=93 if cfg.ecc_fixed && cfg.heavy && room >= 400 => {
            let s = JubJubScalar::from(rng.next_u64());
            let s = if rng.next_u32() % 3 == 0 { -s } else { s };
            let reg = b.witness(BlsScalar::from(s));
            let g = if rng.next_u32() % 2 == 0 { GENERATOR_EXTENDED } else { GENERATOR_NUMS_EXTENDED };
            b.push(Op::MulGenerator(reg, g)).unwrap();
            let q = b.last_p();
            b.sub_points.push(q);
        }
        94..=95 if cfg.ecc_var && cfg.heavy && room >= 2600 => {
            let s = rand_scalar(rng);
            // below 2^252
            let mut acc = BlsScalar::zero();
            let bits = s.to_bits();
            for i in (0..252).rev() {
                acc = acc + acc;
                if bits[i] != 0 {
                    acc += BlsScalar::one();
                }
            }
            let reg = b.witness(acc);
            let x = b.sub_points[rng.next_u32() as usize % b.sub_points.len()];
            b.push(Op::MulPoint(reg, x)).unwrap();
            let q = b.last_p();
            b.sub_points.push(q);
        }
        96..=99 if cfg.raw => {
            // raw arithmetic-style row with a non-0/1 q_arith
            let qa = match rng.next_u32() % 3 {
                0 => BlsScalar::one(),
                1 => BlsScalar::from(2 + rng.next_u64() % 5),
                _ => rand_scalar(rng),
            };
            let z = BlsScalar::zero();
            // the row's identity is q_arith * (arithmetic part) + PI = 0: the
            // public input is NOT scaled by q_arith. Half of these rows carry
            // one; with q_arith = 0 the only satisfying public input is 0.
            let qa = if cfg.public && rng.next_u32() % 5 == 0 { z } else { qa };
            let (pi, piv) = if !cfg.public || rng.next_u32() % 2 == 0 {
                (Pi::None, z)
            } else if qa == z {
                if rng.next_u32() % 2 == 0 {
                    (Pi::Const(z), z)
                } else {
                    (Pi::Input(b.scalar_input(z)), z)
                }
            } else {
                let v = match rng.next_u32() % 3 {
                    0 => BlsScalar::from(1 + rng.next_u64() % 9),
                    _ => rand_scalar(rng),
                };
                if rng.next_u32() % 2 == 0 {
                    (Pi::Const(v), v)
                } else {
                    (Pi::Input(b.scalar_input(v)), v)
                }
            };
            let mut s6: Sel6 = [sel_pool(rng), sel_pool(rng), sel_pool(rng), sel_pool(rng), sel_pool(rng), BlsScalar::zero()];
            let w = [pick_reg(b, rng), pick_reg(b, rng), pick_reg(b, rng), pick_reg(b, rng)];
            // arithmetic part = -PI / q_arith
            let scaled = if qa == z { z } else { piv * qa.invert().unwrap() };
            solve_qc(&mut s6, b.val(w[0]), b.val(w[1]), b.val(w[2]), b.val(w[3]), scaled);
            let s = [s6[0], s6[1], s6[2], s6[3], s6[4], s6[5], qa, z, z, z, z];
            b.push(Op::Raw { s, pi, w }).unwrap();
        }
        _ => return false,
    }
    true
}

fn rand_pi<R: RngCore>(b: &mut Builder, rng: &mut R, cfg: &GenCfg) -> (Pi, BlsScalar) {
    if !cfg.public {
        return (Pi::None, BlsScalar::zero());
    }
    match rng.next_u32() % 6 {
        0 => {
            let v = pool_scalar(rng);
            (Pi::Const(v), v)
        }
        1 => {
            let v = pool_scalar(rng);
            let i = b.scalar_input(v);
            (Pi::Input(i), v)
        }
        2 => (Pi::Const(BlsScalar::zero()), BlsScalar::zero()),
        _ => (Pi::None, BlsScalar::zero()),
    }
}

pub fn filler(b: &mut Builder, rng: &mut impl RngCore) {
    match rng.next_u32() % 3 {
        0 => {
            let z = BlsScalar::zero();
            b.push(Op::Gate { s: [z; 6], pi: Pi::None, w: [0, 0, 0, 0] }).unwrap()
        }
        1 => {
            let r = rng.next_u32() as usize % b.nregs();
            b.push(Op::AssertEq(r, r)).unwrap()
        }
        _ => {
            let r = rng.next_u32() as usize % b.nregs();
            let k = b.val(r);
            b.push(Op::AssertEqConst(r, k, Pi::None)).unwrap()
        }
    }
}

/// A random satisfied program with exactly `target_rows` constraints
/// (target_rows >= 4, the composer's own prelude).
pub fn random_program<R: RngCore>(rng: &mut R, cfg: &GenCfg, target_rows: usize) -> Builder {
    random_program_from(Builder::new(), rng, cfg, target_rows)
}

/// Continue a builder (which may already hold ops) up to `target_rows`.
pub fn random_program_from<R: RngCore>(mut b: Builder, rng: &mut R, cfg: &GenCfg, target_rows: usize) -> Builder {
    // a fresh program with the room starts with one cheap member of every
    // other enabled family, so family coverage never depends on the draw
    if b.prog.ops.is_empty() && target_rows >= 100 {
        if cfg.range {
            let r = b.witness(BlsScalar::from(rng.next_u64() & 0xff));
            b.push(Op::RangeBits(8, r)).unwrap();
        }
        // (the logic components truncate both inputs first: ~170 rows)
        if cfg.logic && target_rows >= 400 {
            let x = b.witness(BlsScalar::from(rng.next_u64()));
            let y = b.witness(BlsScalar::from(rng.next_u64()));
            b.push(if rng.next_u32() & 1 == 0 { Op::LogicAnd(4, x, y) } else { Op::LogicXor(4, x, y) }).unwrap();
        }
        if cfg.ecc_var {
            let i = b.point_input(GENERATOR_EXTENDED * JubJubScalar::from(rng.next_u64()));
            b.push(Op::Point(i)).unwrap();
            let p = b.last_p();
            b.push(Op::AddPoint(p, p)).unwrap();
            let q = b.last_p();
            b.sub_points.push(p);
            b.sub_points.push(q);
        }
        if cfg.public {
            let i = b.scalar_input(rand_scalar(rng));
            b.push(Op::Public(i)).unwrap();
        }
        if cfg.public && cfg.raw {
            // public inputs on rows whose q_arith is 0 / neither 0 nor 1: the
            // row identity is q_arith * (arithmetic part) + PI = 0
            let z = BlsScalar::zero();
            let i = b.scalar_input(z);
            b.push(Op::Raw { s: [sel_pool(rng), sel_pool(rng), z, z, z, rand_scalar(rng), z, z, z, z, z], pi: Pi::Input(i), w: [1, 1, 0, 0] }).unwrap();
            let qa = BlsScalar::from(2 + rng.next_u64() % 7);
            let v = BlsScalar::from(1 + rng.next_u64() % 100);
            let j = b.scalar_input(v);
            // q_l * ONE + q_c = -v / qa with q_l = 1
            let qc = -(v * qa.invert().unwrap()) - BlsScalar::one();
            b.push(Op::Raw { s: [z, BlsScalar::one(), z, z, z, qc, qa, z, z, z, z], pi: Pi::Input(j), w: [1, 0, 0, 0] }).unwrap();
        }
    }
    // a program that is allowed the heavy components and has the room always
    // starts with one fixed-base multiplication, so every gate family occurs
    if cfg.heavy && cfg.ecc_fixed && target_rows >= 450 && target_rows - b.rows() >= 360 {
        let s = JubJubScalar::from(rng.next_u64());
        let reg = b.witness(BlsScalar::from(s));
        b.push(Op::MulGenerator(reg, GENERATOR_EXTENDED)).unwrap();
        let q = b.last_p();
        b.sub_points.push(q);
    }
    let mut guard = 0;
    while b.rows() < target_rows && guard < 200_000 {
        guard += 1;
        let room = target_rows - b.rows();
        if room <= 1 {
            filler(&mut b, rng);
            continue;
        }
        // Near the end try ops on a copy so that the target is hit exactly.
        if room < 3000 {
            let snapshot = (b.c.clone(), b.regs.clone(), b.prog.clone(), b.inputs.clone(), b.bits.clone(), b.small.clone(), b.sub_points.clone(), b.families.clone());
            let ok = random_sat_op(&mut b, rng, cfg, room);
            if !ok || b.rows() > target_rows {
                b.c = snapshot.0;
                b.regs = snapshot.1;
                b.prog = snapshot.2;
                b.inputs = snapshot.3;
                b.bits = snapshot.4;
                b.small = snapshot.5;
                b.sub_points = snapshot.6;
                b.families = snapshot.7;
                if room < 12 || guard % 5 == 0 {
                    filler(&mut b, rng);
                }
            }
        } else {
            random_sat_op(&mut b, rng, cfg, room);
        }
    }
    assert_eq!(b.rows(), target_rows, "row targeting failed");
    b
}

/// Append `levels` blank rows (every selector zero) whose four wires are
/// fresh witnesses, and choose those witnesses so that the `levels` highest
/// coefficients (X^(n-1) .. X^(n-levels)) of every wire column's interpolation
/// polynomial over the padded domain vanish: a satisfied circuit whose wire
/// polynomials have degree < n - levels (random witnesses never produce one).
pub fn low_degree_columns(mut b: Builder, levels: usize) -> Builder {
    let zero = BlsScalar::zero();
    let first_row = b.rows();
    let mut idx: Vec<[usize; 4]> = Vec::new();
    for _ in 0..levels {
        let mut regs = [0usize; 4];
        let mut ins = [0usize; 4];
        for k in 0..4 {
            ins[k] = b.scalar_input(zero);
            b.push(Op::Witness(ins[k])).unwrap();
            regs[k] = b.last();
        }
        b.push(Op::Raw { s: [zero; 11], pi: Pi::None, w: regs }).unwrap();
        idx.push(ins);
    }
    let snap = b.c.verif_snapshot();
    let n = snap.gates.len().next_power_of_two();
    let w = crate::refimpl::fft::root_of_unity(n);
    // coefficient of X^(n-t) = (1/n) * sum_j v_j w^(j t)
    for col in 0..4 {
        let mut m: Vec<Vec<BlsScalar>> = Vec::new();
        for t in 1..=levels {
            let wt = crate::refimpl::fft::pow(&w, t as u64);
            let mut known = zero;
            let mut p = BlsScalar::one();
            for (j, g) in snap.gates.iter().enumerate() {
                if j < first_row || j >= first_row + levels {
                    known += snap.witnesses[g.w[col]] * p;
                }
                p *= wt;
            }
            let mut row: Vec<BlsScalar> = (0..levels).map(|l| crate::refimpl::fft::pow(&wt, (first_row + l) as u64)).collect();
            row.push(-known);
            m.push(row);
        }
        // Gaussian elimination (Vandermonde in distinct nodes: regular)
        for i in 0..levels {
            let piv = (i..levels).find(|r| m[*r][i] != zero).expect("regular system");
            m.swap(i, piv);
            let inv = m[i][i].invert().unwrap();
            for c in i..=levels {
                m[i][c] *= inv;
            }
            for r in 0..levels {
                if r != i && m[r][i] != zero {
                    let f = m[r][i];
                    for c in i..=levels {
                        let v = m[i][c] * f;
                        m[r][c] -= v;
                    }
                }
            }
        }
        for l in 0..levels {
            b.inputs.scalars[idx[l][col]] = m[l][levels];
        }
    }
    // replay the program with the solved inputs
    let ops = b.prog.ops.clone();
    let mut b2 = Builder::new();
    b2.inputs = b.inputs.clone();
    b2.prog.n_scalar_inputs = b.prog.n_scalar_inputs;
    b2.prog.n_point_inputs = b.prog.n_point_inputs;
    b2.prog.n_digit_inputs = b.prog.n_digit_inputs;
    for op in ops {
        b2.push(op).expect("replay of a program that built before");
    }
    b2.families = b.families;
    b2
}

/// Highest non-zero coefficient index (+1) of each wire column's interpolation
/// polynomial, for evidence and self-checks.
pub fn column_degrees_plus_one(snap: &dusk_plonk::verif::Snapshot) -> [usize; 4] {
    let n = snap.gates.len().next_power_of_two();
    let mut out = [0usize; 4];
    for col in 0..4 {
        let mut v: Vec<BlsScalar> = snap.gates.iter().map(|g| snap.witnesses[g.w[col]]).collect();
        v.resize(n, BlsScalar::zero());
        let c = crate::refimpl::fft::idft(&v, n);
        out[col] = crate::refimpl::fft::trim(c).len();
    }
    out
}

pub fn _unused(_: BlsScalar) -> BlsScalar {
    pow2(1)
}
