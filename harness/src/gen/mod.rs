pub mod build;
pub mod cc;
pub mod dispatch;
pub mod mutate;
pub mod program;
