pub mod build;
pub mod dispatch;
pub mod program;
