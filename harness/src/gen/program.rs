//! Program DSL: a circuit is a list of composer calls over a register file,
//! plus typed inputs. The same `Program` run with different `Inputs` must
//! give the same gate layout (property C07); run with the default inputs it
//! is what `Compiler::compile::<C>` and `C::compress()` see.

use std::cell::RefCell;
use std::sync::Arc;

use dusk_bls12_381::BlsScalar;
use dusk_jubjub::{JubJubAffine, JubJubExtended};
use dusk_plonk::prelude::{
    Circuit, Composer, Constraint, Error, TorsionFreeWitnessPoint, Witness, WitnessPoint,
};
use dusk_plonk::verif::Snapshot;

use super::dispatch;

pub type Reg = usize;
pub type PReg = usize;

#[derive(Clone, Debug, PartialEq)]
pub enum Pi {
    None,
    Const(BlsScalar),
    Input(usize),
}

/// q_m, q_l, q_r, q_o, q_f, q_c
pub type Sel6 = [BlsScalar; 6];

#[derive(Clone, Debug)]
pub enum Op {
    // ---- scalars ----------------------------------------------------------
    Witness(usize),
    Constant(BlsScalar),
    Public(usize),
    Gate { s: Sel6, pi: Pi, w: [Reg; 4] },
    /// append_evaluated_output with (a, b, d); pushes the output register
    /// (or the ZERO register when the call returns None)
    EvalOut { s: Sel6, pi: Pi, w: [Reg; 3] },
    GateAdd { s: Sel6, pi: Pi, w: [Reg; 3] },
    GateMul { s: Sel6, pi: Pi, w: [Reg; 3] },
    AssertEq(Reg, Reg),
    AssertEqConst(Reg, BlsScalar, Pi),
    Boolean(Reg),
    Select(Reg, Reg, Reg),
    SelectOne(Reg, Reg),
    SelectZero(Reg, Reg),
    /// pushes N registers
    Decomposition(usize, Reg),
    RangeBits(usize, Reg),
    RangePairs(usize, Reg),
    RangeSeam(usize, Reg),
    LogicAnd(usize, Reg, Reg),
    LogicXor(usize, Reg, Reg),
    Truncate(usize, Reg),
    // ---- points -----------------------------------------------------------
    Point(usize),
    ConstantPoint(JubJubExtended),
    PublicPoint(usize),
    PointFromRegs(Reg, Reg),
    /// pushes the x and y coordinate witnesses of a point as scalar registers
    PointCoords(PReg),
    AssertEqPoint(PReg, PReg),
    AssertEqPublicPoint(PReg, usize),
    AssertTorsionFree(PReg),
    AddPoint(PReg, PReg),
    SubPoint(PReg, PReg),
    NegPoint(PReg),
    MulPoint(Reg, PReg),
    SelectIdentity(Reg, PReg),
    SelectPoint(Reg, PReg, PReg),
    MulGenerator(Reg, JubJubExtended),
    // ---- hooks ------------------------------------------------------------
    Raw { s: [BlsScalar; 11], pi: Pi, w: [Reg; 4] },
    SeamAddPoint(PReg, PReg),
    /// assert_torsion_free_gates(point, q = point input k as affine)
    SeamTorsionFree(PReg, usize),
    /// append_fixed_base_signed_digits(scalar, generator, digits[k])
    SeamFixedBase(Reg, JubJubExtended, usize),
    SeamCanonicalJubjub(Reg),
    SeamTruncSplit(Reg, Reg, usize),
}

impl Op {
    pub fn name(&self) -> &'static str {
        match self {
            Op::Witness(_) => "append_witness",
            Op::Constant(_) => "append_constant",
            Op::Public(_) => "append_public",
            Op::Gate { .. } => "append_gate",
            Op::EvalOut { .. } => "append_evaluated_output",
            Op::GateAdd { .. } => "gate_add",
            Op::GateMul { .. } => "gate_mul",
            Op::AssertEq(..) => "assert_equal",
            Op::AssertEqConst(..) => "assert_equal_constant",
            Op::Boolean(_) => "component_boolean",
            Op::Select(..) => "component_select",
            Op::SelectOne(..) => "component_select_one",
            Op::SelectZero(..) => "component_select_zero",
            Op::Decomposition(..) => "component_decomposition",
            Op::RangeBits(..) => "component_range_bits",
            Op::RangePairs(..) => "component_range",
            Op::RangeSeam(..) => "verif_range_check",
            Op::LogicAnd(..) => "append_logic_and",
            Op::LogicXor(..) => "append_logic_xor",
            Op::Truncate(..) => "component_truncate",
            Op::Point(_) => "append_point",
            Op::ConstantPoint(_) => "append_constant_point",
            Op::PublicPoint(_) => "append_public_point",
            Op::PointFromRegs(..) => "verif_point",
            Op::PointCoords(_) => "point_coords",
            Op::AssertEqPoint(..) => "assert_equal_point",
            Op::AssertEqPublicPoint(..) => "assert_equal_public_point",
            Op::AssertTorsionFree(_) => "assert_torsion_free_point",
            Op::AddPoint(..) => "component_add_point",
            Op::SubPoint(..) => "component_sub_point",
            Op::NegPoint(_) => "component_neg_point",
            Op::MulPoint(..) => "component_mul_point",
            Op::SelectIdentity(..) => "component_select_identity",
            Op::SelectPoint(..) => "component_select_point",
            Op::MulGenerator(..) => "component_mul_generator",
            Op::Raw { .. } => "verif_append_raw",
            Op::SeamAddPoint(..) => "verif_add_point_gates",
            Op::SeamTorsionFree(..) => "verif_assert_torsion_free_gates",
            Op::SeamFixedBase(..) => "verif_fixed_base_signed_digits",
            Op::SeamCanonicalJubjub(_) => "verif_assert_canonical_jubjub_scalar",
            Op::SeamTruncSplit(..) => "verif_bind_truncation_split",
        }
    }

    /// short textual form for case descriptors
    pub fn tag(&self) -> String {
        match self {
            Op::Decomposition(n, r) => format!("decomposition<{n}>(r{r})"),
            Op::RangeBits(n, r) => format!("range_bits<{n}>(r{r})"),
            Op::RangePairs(n, r) => format!("range<{n}>(r{r})"),
            Op::RangeSeam(n, r) => format!("range_check({n},r{r})"),
            Op::LogicAnd(n, a, b) => format!("and<{n}>(r{a},r{b})"),
            Op::LogicXor(n, a, b) => format!("xor<{n}>(r{a},r{b})"),
            Op::Truncate(n, r) => format!("truncate<{n}>(r{r})"),
            Op::Witness(i) => format!("witness(in{i})"),
            Op::Public(i) => format!("public(in{i})"),
            Op::Constant(k) => format!("constant({})", crate::util::hx(k)),
            Op::Gate { s, pi, w } => format!(
                "gate[{}]{}(r{},r{},r{},r{})",
                s.iter().map(crate::util::hx).collect::<Vec<_>>().join(","),
                pi_tag(pi),
                w[0],
                w[1],
                w[2],
                w[3]
            ),
            Op::Raw { s, pi, w } => format!(
                "raw[{}]{}(r{},r{},r{},r{})",
                s.iter().map(crate::util::hx).collect::<Vec<_>>().join(","),
                pi_tag(pi),
                w[0],
                w[1],
                w[2],
                w[3]
            ),
            Op::EvalOut { s, pi, w } | Op::GateAdd { s, pi, w } | Op::GateMul { s, pi, w } => format!(
                "{}[{}]{}(r{},r{},r{})",
                self.name(),
                s.iter().map(crate::util::hx).collect::<Vec<_>>().join(","),
                pi_tag(pi),
                w[0],
                w[1],
                w[2]
            ),
            other => {
                let s = format!("{other:?}");
                if s.len() > 90 {
                    format!("{}…", &s[..90])
                } else {
                    s
                }
            }
        }
    }
}

fn pi_tag(pi: &Pi) -> String {
    match pi {
        Pi::None => String::new(),
        Pi::Const(k) => format!("+pi({})", crate::util::hx(k)),
        Pi::Input(i) => format!("+pi(in{i})"),
    }
}

#[derive(Clone, Debug, Default)]
pub struct Program {
    pub ops: Vec<Op>,
    pub n_scalar_inputs: usize,
    pub n_point_inputs: usize,
    pub n_digit_inputs: usize,
}

impl Program {
    pub fn tags(&self) -> Vec<String> {
        self.ops.iter().map(|o| o.tag()).collect()
    }
}

#[derive(Clone, Debug, Default)]
pub struct Inputs {
    pub scalars: Vec<BlsScalar>,
    pub points: Vec<JubJubExtended>,
    pub digits: Vec<[i8; 256]>,
}

impl Inputs {
    pub fn default_for(p: &Program) -> Self {
        Inputs {
            scalars: vec![BlsScalar::zero(); p.n_scalar_inputs],
            points: vec![JubJubExtended::identity(); p.n_point_inputs],
            digits: vec![[0i8; 256]; p.n_digit_inputs],
        }
    }
}

/// Post-build modifications (adversarial assignments on an unchanged layout).
#[derive(Clone, Debug)]
pub enum Tamper {
    SetWitness(usize, BlsScalar),
    SetWire { row: usize, wire: usize, witness: usize },
    SetPi { row: usize, value: BlsScalar },
}

/// Registers produced by a run.
#[derive(Clone, Debug, Default)]
pub struct Regs {
    pub s: Vec<Witness>,
    pub p: Vec<WitnessPoint>,
    /// for every op: (first scalar reg, first point reg, first row, first witness) before it ran
    pub marks: Vec<(usize, usize, usize, usize)>,
}

fn pi_val(pi: &Pi, inp: &Inputs) -> Option<BlsScalar> {
    match pi {
        Pi::None => None,
        Pi::Const(k) => Some(*k),
        Pi::Input(i) => Some(inp.scalars[*i]),
    }
}

fn cons6(s: &Sel6, pi: &Pi, inp: &Inputs) -> Constraint {
    let c = Constraint::new()
        .mult(s[0])
        .left(s[1])
        .right(s[2])
        .output(s[3])
        .fourth(s[4])
        .constant(s[5]);
    match pi_val(pi, inp) {
        Some(v) => c.public(v),
        None => c,
    }
}

fn tf(p: WitnessPoint) -> TorsionFreeWitnessPoint {
    TorsionFreeWitnessPoint::new_unchecked(p)
}

/// Execute one op on `c`.
pub fn exec_op(op: &Op, inp: &Inputs, c: &mut Composer, r: &mut Regs) -> Result<(), Error> {
    r.marks.push((r.s.len(), r.p.len(), c.constraints(), c.verif_witness_count()));
    match op {
        Op::Witness(i) => r.s.push(c.append_witness(inp.scalars[*i])),
        Op::Constant(k) => r.s.push(c.append_constant(*k)),
        Op::Public(i) => r.s.push(c.append_public(inp.scalars[*i])),
        Op::Gate { s, pi, w } => {
            let k = cons6(s, pi, inp).a(r.s[w[0]]).b(r.s[w[1]]).c(r.s[w[2]]).d(r.s[w[3]]);
            c.append_gate(k);
        }
        Op::EvalOut { s, pi, w } => {
            let k = cons6(s, pi, inp).a(r.s[w[0]]).b(r.s[w[1]]).d(r.s[w[2]]);
            let o = c.append_evaluated_output(k);
            r.s.push(o.unwrap_or(Composer::ZERO));
        }
        Op::GateAdd { s, pi, w } => {
            let k = cons6(s, pi, inp).a(r.s[w[0]]).b(r.s[w[1]]).d(r.s[w[2]]);
            r.s.push(c.gate_add(k));
        }
        Op::GateMul { s, pi, w } => {
            let k = cons6(s, pi, inp).a(r.s[w[0]]).b(r.s[w[1]]).d(r.s[w[2]]);
            r.s.push(c.gate_mul(k));
        }
        Op::AssertEq(a, b) => c.assert_equal(r.s[*a], r.s[*b]),
        Op::AssertEqConst(a, k, pi) => c.assert_equal_constant(r.s[*a], *k, pi_val(pi, inp)),
        Op::Boolean(a) => c.component_boolean(r.s[*a]),
        Op::Select(bit, a, b) => r.s.push(c.component_select(r.s[*bit], r.s[*a], r.s[*b])),
        Op::SelectOne(bit, a) => r.s.push(c.component_select_one(r.s[*bit], r.s[*a])),
        Op::SelectZero(bit, a) => r.s.push(c.component_select_zero(r.s[*bit], r.s[*a])),
        Op::Decomposition(n, a) => {
            let bits = dispatch::decomposition(c, *n, r.s[*a]).expect("width in table");
            r.s.extend(bits);
        }
        Op::RangeBits(n, a) => assert!(dispatch::range_bits(c, *n, r.s[*a])),
        Op::RangePairs(n, a) => assert!(dispatch::range_pairs(c, *n, r.s[*a])),
        Op::RangeSeam(n, a) => c.verif_range_check(r.s[*a], *n),
        Op::LogicAnd(n, a, b) => r.s.push(dispatch::logic_and(c, *n, r.s[*a], r.s[*b]).expect("width")),
        Op::LogicXor(n, a, b) => r.s.push(dispatch::logic_xor(c, *n, r.s[*a], r.s[*b]).expect("width")),
        Op::Truncate(n, a) => r.s.push(dispatch::truncate(c, *n, r.s[*a]).expect("width")),
        Op::Point(i) => r.p.push(c.append_point(inp.points[*i])?),
        Op::ConstantPoint(p) => r.p.push(c.append_constant_point(*p)?.into()),
        Op::PublicPoint(i) => r.p.push(c.append_public_point(inp.points[*i])?),
        Op::PointFromRegs(x, y) => r.p.push(Composer::verif_point(r.s[*x], r.s[*y])),
        Op::PointCoords(p) => {
            let wp = r.p[*p];
            r.s.push(*wp.x());
            r.s.push(*wp.y());
        }
        Op::AssertEqPoint(a, b) => c.assert_equal_point(r.p[*a], r.p[*b]),
        Op::AssertEqPublicPoint(a, i) => c.assert_equal_public_point(r.p[*a], inp.points[*i])?,
        Op::AssertTorsionFree(a) => {
            let t = c.assert_torsion_free_point(r.p[*a]);
            r.p.push(t.into());
        }
        Op::AddPoint(a, b) => r.p.push(c.component_add_point(tf(r.p[*a]), tf(r.p[*b])).into()),
        Op::SubPoint(a, b) => r.p.push(c.component_sub_point(tf(r.p[*a]), tf(r.p[*b])).into()),
        Op::NegPoint(a) => r.p.push(c.component_neg_point(tf(r.p[*a])).into()),
        Op::MulPoint(s, a) => r.p.push(c.component_mul_point(r.s[*s], tf(r.p[*a])).into()),
        Op::SelectIdentity(bit, a) => r.p.push(c.component_select_identity(r.s[*bit], tf(r.p[*a])).into()),
        Op::SelectPoint(bit, a, b) => r.p.push(c.component_select_point(r.s[*bit], r.p[*a], r.p[*b])),
        Op::MulGenerator(s, g) => r.p.push(c.component_mul_generator(r.s[*s], *g)?.into()),
        Op::Raw { s, pi, w } => {
            c.verif_append_raw(*s, pi_val(pi, inp), [r.s[w[0]], r.s[w[1]], r.s[w[2]], r.s[w[3]]])
        }
        Op::SeamAddPoint(a, b) => r.p.push(c.verif_add_point_gates(r.p[*a], r.p[*b])),
        Op::SeamTorsionFree(a, k) => {
            let q = inp.points[*k];
            let q = JubJubAffine::from_raw_unchecked(q.get_u(), q.get_v());
            c.verif_assert_torsion_free_gates(r.p[*a], q)
        }
        Op::SeamFixedBase(s, g, k) => r.p.push(c.verif_fixed_base_signed_digits(r.s[*s], *g, &inp.digits[*k])?),
        Op::SeamCanonicalJubjub(s) => c.verif_assert_canonical_jubjub_scalar(r.s[*s]),
        Op::SeamTruncSplit(a, b, n) => c.verif_bind_truncation_split(r.s[*a], r.s[*b], *n),
    }
    Ok(())
}

pub fn exec(p: &Program, inp: &Inputs, c: &mut Composer) -> Result<Regs, Error> {
    let mut r = Regs::default();
    // registers 0 and 1 are the composer's ZERO and ONE
    r.s.push(Composer::ZERO);
    r.s.push(Composer::ONE);
    r.p.push(Composer::IDENTITY.into());
    for op in &p.ops {
        exec_op(op, inp, c, &mut r)?;
    }
    Ok(r)
}

// ---------------------------------------------------------------------------
// The Circuit the real API sees
// ---------------------------------------------------------------------------

thread_local! {
    static CURRENT: RefCell<Option<Arc<Program>>> = const { RefCell::new(None) };
    static LAST: RefCell<Option<(Snapshot, Regs)>> = const { RefCell::new(None) };
}

/// Make `p` the program `HC::default()` builds on this thread.
pub fn set_current(p: Arc<Program>) {
    CURRENT.with(|c| *c.borrow_mut() = Some(p));
}

/// Snapshot + registers recorded by the last `HC::circuit` run on this thread.
pub fn take_last() -> Option<(Snapshot, Regs)> {
    LAST.with(|l| l.borrow_mut().take())
}

#[derive(Clone)]
pub struct HC {
    pub prog: Arc<Program>,
    pub inputs: Inputs,
    pub tamper: Vec<Tamper>,
}

impl HC {
    pub fn new(prog: Arc<Program>, inputs: Inputs) -> Self {
        HC { prog, inputs, tamper: Vec::new() }
    }
    pub fn with_tamper(mut self, t: Vec<Tamper>) -> Self {
        self.tamper = t;
        self
    }
}

impl Default for HC {
    fn default() -> Self {
        let prog = CURRENT
            .with(|c| c.borrow().clone())
            .expect("harness: no current program on this thread");
        let inputs = Inputs::default_for(&prog);
        HC { prog, inputs, tamper: Vec::new() }
    }
}

pub fn apply_tamper(c: &mut Composer, t: &[Tamper]) {
    for t in t {
        match t {
            Tamper::SetWitness(w, v) => c.verif_set_witness(Composer::verif_witness(*w), *v),
            Tamper::SetWire { row, wire, witness } => {
                c.verif_set_gate_wire(*row, *wire, Composer::verif_witness(*witness))
            }
            Tamper::SetPi { row, value } => c.verif_set_public_input(*row, *value),
        }
    }
}

impl Circuit for HC {
    fn circuit(&self, composer: &mut Composer) -> Result<(), Error> {
        let regs = exec(&self.prog, &self.inputs, composer)?;
        apply_tamper(composer, &self.tamper);
        LAST.with(|l| *l.borrow_mut() = Some((composer.verif_snapshot(), regs)));
        Ok(())
    }
}

/// Build on a fresh initialized composer (what compile / prove do).
pub fn build(p: &Program, inp: &Inputs, tamper: &[Tamper]) -> Result<(Composer, Regs), Error> {
    let mut c = Composer::initialized();
    let regs = exec(p, inp, &mut c)?;
    apply_tamper(&mut c, tamper);
    Ok((c, regs))
}

impl Op {
    /// The same op with its scalar / point register operands renumbered.
    pub fn map_regs(&self, fs: &dyn Fn(Reg) -> Reg, fp: &dyn Fn(PReg) -> PReg) -> Op {
        let m4 = |w: &[Reg; 4]| [fs(w[0]), fs(w[1]), fs(w[2]), fs(w[3])];
        let m3 = |w: &[Reg; 3]| [fs(w[0]), fs(w[1]), fs(w[2])];
        match self {
            Op::Witness(_) | Op::Constant(_) | Op::Public(_) | Op::Point(_) | Op::ConstantPoint(_) | Op::PublicPoint(_) => self.clone(),
            Op::Gate { s, pi, w } => Op::Gate { s: *s, pi: pi.clone(), w: m4(w) },
            Op::Raw { s, pi, w } => Op::Raw { s: *s, pi: pi.clone(), w: m4(w) },
            Op::EvalOut { s, pi, w } => Op::EvalOut { s: *s, pi: pi.clone(), w: m3(w) },
            Op::GateAdd { s, pi, w } => Op::GateAdd { s: *s, pi: pi.clone(), w: m3(w) },
            Op::GateMul { s, pi, w } => Op::GateMul { s: *s, pi: pi.clone(), w: m3(w) },
            Op::AssertEq(a, b) => Op::AssertEq(fs(*a), fs(*b)),
            Op::AssertEqConst(a, k, pi) => Op::AssertEqConst(fs(*a), *k, pi.clone()),
            Op::Boolean(a) => Op::Boolean(fs(*a)),
            Op::Select(a, b, c) => Op::Select(fs(*a), fs(*b), fs(*c)),
            Op::SelectOne(a, b) => Op::SelectOne(fs(*a), fs(*b)),
            Op::SelectZero(a, b) => Op::SelectZero(fs(*a), fs(*b)),
            Op::Decomposition(n, a) => Op::Decomposition(*n, fs(*a)),
            Op::RangeBits(n, a) => Op::RangeBits(*n, fs(*a)),
            Op::RangePairs(n, a) => Op::RangePairs(*n, fs(*a)),
            Op::RangeSeam(n, a) => Op::RangeSeam(*n, fs(*a)),
            Op::LogicAnd(n, a, b) => Op::LogicAnd(*n, fs(*a), fs(*b)),
            Op::LogicXor(n, a, b) => Op::LogicXor(*n, fs(*a), fs(*b)),
            Op::Truncate(n, a) => Op::Truncate(*n, fs(*a)),
            Op::PointFromRegs(x, y) => Op::PointFromRegs(fs(*x), fs(*y)),
            Op::PointCoords(p) => Op::PointCoords(fp(*p)),
            Op::AssertEqPoint(a, b) => Op::AssertEqPoint(fp(*a), fp(*b)),
            Op::AssertEqPublicPoint(a, i) => Op::AssertEqPublicPoint(fp(*a), *i),
            Op::AssertTorsionFree(a) => Op::AssertTorsionFree(fp(*a)),
            Op::AddPoint(a, b) => Op::AddPoint(fp(*a), fp(*b)),
            Op::SubPoint(a, b) => Op::SubPoint(fp(*a), fp(*b)),
            Op::NegPoint(a) => Op::NegPoint(fp(*a)),
            Op::MulPoint(s, a) => Op::MulPoint(fs(*s), fp(*a)),
            Op::SelectIdentity(s, a) => Op::SelectIdentity(fs(*s), fp(*a)),
            Op::SelectPoint(s, a, b) => Op::SelectPoint(fs(*s), fp(*a), fp(*b)),
            Op::MulGenerator(s, g) => Op::MulGenerator(fs(*s), *g),
            Op::SeamAddPoint(a, b) => Op::SeamAddPoint(fp(*a), fp(*b)),
            Op::SeamTorsionFree(a, k) => Op::SeamTorsionFree(fp(*a), *k),
            Op::SeamFixedBase(s, g, k) => Op::SeamFixedBase(fs(*s), *g, *k),
            Op::SeamCanonicalJubjub(s) => Op::SeamCanonicalJubjub(fs(*s)),
            Op::SeamTruncSplit(a, b, n) => Op::SeamTruncSplit(fs(*a), fs(*b), *n),
        }
    }

    /// Scalar and point registers the op reads.
    pub fn operands(&self) -> (Vec<Reg>, Vec<PReg>) {
        let s = std::cell::RefCell::new(Vec::new());
        let p = std::cell::RefCell::new(Vec::new());
        let _ = self.map_regs(
            &|r| {
                s.borrow_mut().push(r);
                r
            },
            &|r| {
                p.borrow_mut().push(r);
                r
            },
        );
        (s.into_inner(), p.into_inner())
    }
}
