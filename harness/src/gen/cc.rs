//! Mirror of the compressed-circuit wire format (MessagePack fields in
//! order, then raw deflate), written from the format description so that
//! payloads can be decoded, edited field by field and re-encoded.
//!
//!   bool hades_optimization
//!   array<uint> public_inputs
//!   uint witnesses
//!   array<32 x uint8> scalars           (each byte a MessagePack uint)
//!   array<11 x uint> polynomials
//!   array<5 x uint> constraints          (polynomial, a, b, c, d)

use dusk_bls12_381::BlsScalar;
use sha2::{Digest, Sha512};

#[derive(Clone, Debug, PartialEq, Eq)]
pub struct CC {
    pub hades: bool,
    pub public_inputs: Vec<u64>,
    pub witnesses: u64,
    pub scalars: Vec<[u8; 32]>,
    pub polynomials: Vec<[u64; 11]>,
    pub constraints: Vec<[u64; 5]>,
}

pub fn put_uint(out: &mut Vec<u8>, v: u64) {
    if v <= 127 {
        out.push(v as u8);
    } else if v <= u8::MAX as u64 {
        out.push(0xcc);
        out.push(v as u8);
    } else if v <= u16::MAX as u64 {
        out.push(0xcd);
        out.extend_from_slice(&(v as u16).to_be_bytes());
    } else if v <= u32::MAX as u64 {
        out.push(0xce);
        out.extend_from_slice(&(v as u32).to_be_bytes());
    } else {
        out.push(0xcf);
        out.extend_from_slice(&v.to_be_bytes());
    }
}

pub fn put_array_len(out: &mut Vec<u8>, len: u64) {
    if len <= 15 {
        out.push(0x90 | len as u8);
    } else if len <= u16::MAX as u64 {
        out.push(0xdc);
        out.extend_from_slice(&(len as u16).to_be_bytes());
    } else {
        out.push(0xdd);
        out.extend_from_slice(&(len as u32).to_be_bytes());
    }
}

struct Rd<'a> {
    b: &'a [u8],
}

impl Rd<'_> {
    fn byte(&mut self) -> Option<u8> {
        let (f, r) = self.b.split_first()?;
        self.b = r;
        Some(*f)
    }
    fn take(&mut self, n: usize) -> Option<&[u8]> {
        if self.b.len() < n {
            return None;
        }
        let (a, r) = self.b.split_at(n);
        self.b = r;
        Some(a)
    }
    fn uint(&mut self) -> Option<u64> {
        let t = self.byte()?;
        Some(match t {
            0..=0x7f => t as u64,
            0xcc => self.byte()? as u64,
            0xcd => u16::from_be_bytes(self.take(2)?.try_into().ok()?) as u64,
            0xce => u32::from_be_bytes(self.take(4)?.try_into().ok()?) as u64,
            0xcf => u64::from_be_bytes(self.take(8)?.try_into().ok()?),
            _ => return None,
        })
    }
    fn array_len(&mut self) -> Option<u64> {
        let t = self.byte()?;
        Some(match t {
            0x90..=0x9f => (t & 0x0f) as u64,
            0xdc => u16::from_be_bytes(self.take(2)?.try_into().ok()?) as u64,
            0xdd => u32::from_be_bytes(self.take(4)?.try_into().ok()?) as u64,
            _ => return None,
        })
    }
}

impl CC {
    pub fn pack(&self) -> Vec<u8> {
        let mut o = Vec::new();
        o.push(if self.hades { 0xc3 } else { 0xc2 });
        put_array_len(&mut o, self.public_inputs.len() as u64);
        for p in &self.public_inputs {
            put_uint(&mut o, *p);
        }
        put_uint(&mut o, self.witnesses);
        put_array_len(&mut o, self.scalars.len() as u64);
        for s in &self.scalars {
            for b in s {
                put_uint(&mut o, *b as u64);
            }
        }
        put_array_len(&mut o, self.polynomials.len() as u64);
        for p in &self.polynomials {
            for x in p {
                put_uint(&mut o, *x);
            }
        }
        put_array_len(&mut o, self.constraints.len() as u64);
        for c in &self.constraints {
            for x in c {
                put_uint(&mut o, *x);
            }
        }
        o
    }

    pub fn unpack(packed: &[u8]) -> Option<(CC, usize)> {
        let mut r = Rd { b: packed };
        let hades = match r.byte()? {
            0xc3 => true,
            0xc2 => false,
            _ => return None,
        };
        let n = r.array_len()?;
        let mut public_inputs = Vec::new();
        for _ in 0..n {
            public_inputs.push(r.uint()?);
        }
        let witnesses = r.uint()?;
        let n = r.array_len()?;
        let mut scalars = Vec::new();
        for _ in 0..n {
            let mut s = [0u8; 32];
            for b in s.iter_mut() {
                *b = r.uint()? as u8;
            }
            scalars.push(s);
        }
        let n = r.array_len()?;
        let mut polynomials = Vec::new();
        for _ in 0..n {
            let mut p = [0u64; 11];
            for x in p.iter_mut() {
                *x = r.uint()?;
            }
            polynomials.push(p);
        }
        let n = r.array_len()?;
        let mut constraints = Vec::new();
        for _ in 0..n {
            let mut c = [0u64; 5];
            for x in c.iter_mut() {
                *x = r.uint()?;
            }
            constraints.push(c);
        }
        let consumed = packed.len() - r.b.len();
        Some((CC { hades, public_inputs, witnesses, scalars, polynomials, constraints }, consumed))
    }

    /// The built-in scalar table a description with the given flag refers to:
    /// 0, 1, -1, then (flag set) the round constants and MDS entries in
    /// order, each value once.
    pub fn builtin_table(hades: bool) -> Vec<BlsScalar> {
        let mut t = vec![BlsScalar::zero(), BlsScalar::one(), -BlsScalar::one()];
        if hades {
            for s in hades_constants().into_iter().chain(hades_mds()) {
                if !t.contains(&s) {
                    t.push(s);
                }
            }
        }
        t
    }

    /// The same constraint system described with the other value of the
    /// built-in-table flag: every selector index is resolved to its value and
    /// re-indexed against the other table, values outside it becoming explicit
    /// scalars. None if an index is out of range.
    pub fn with_flag(&self, hades: bool) -> Option<CC> {
        use dusk_bytes::Serializable;
        let old = Self::builtin_table(self.hades);
        let new = Self::builtin_table(hades);
        let mut explicit: Vec<[u8; 32]> = Vec::new();
        let mut polys = Vec::new();
        for p in &self.polynomials {
            let mut q = [0u64; 11];
            for (k, idx) in p.iter().enumerate() {
                let i = *idx as usize;
                let bytes: [u8; 32] = if i < old.len() { old[i].to_bytes() } else { *self.scalars.get(i - old.len())? };
                let pos = match new.iter().position(|t| t.to_bytes() == bytes) {
                    Some(j) => j,
                    None => match explicit.iter().position(|e| *e == bytes) {
                        Some(j) => new.len() + j,
                        None => {
                            explicit.push(bytes);
                            new.len() + explicit.len() - 1
                        }
                    },
                };
                q[k] = pos as u64;
            }
            polys.push(q);
        }
        Some(CC { hades, public_inputs: self.public_inputs.clone(), witnesses: self.witnesses, scalars: explicit, polynomials: polys, constraints: self.constraints.clone() })
    }

    pub fn from_compressed(bytes: &[u8]) -> Option<CC> {
        let packed = miniz_oxide::inflate::decompress_to_vec(bytes).ok()?;
        let (cc, used) = CC::unpack(&packed)?;
        if used != packed.len() {
            return None;
        }
        Some(cc)
    }

    pub fn to_compressed(&self) -> Vec<u8> {
        deflate(&self.pack())
    }
}

pub fn deflate(packed: &[u8]) -> Vec<u8> {
    miniz_oxide::deflate::compress_to_vec(packed, 10)
}

pub fn inflate(bytes: &[u8]) -> Option<Vec<u8>> {
    miniz_oxide::inflate::decompress_to_vec(bytes).ok()
}

/// The built-in constant table the encoder assumes on both sides: 0, 1, -1,
/// then the 335 Hades round constants and the 25 MDS entries (own derivation
/// from their published definition).
pub fn hades_constants() -> Vec<BlsScalar> {
    let mut out = Vec::new();
    let mut p = BlsScalar::one();
    let mut bytes = b"poseidon-for-plonk".to_vec();
    for _ in 0..(59 + 8) * 5 {
        bytes = Sha512::digest(&bytes).to_vec();
        let mut v = [0u8; 64];
        v.copy_from_slice(&bytes);
        let c = BlsScalar::from_bytes_wide(&v) + p;
        p = c;
        out.push(c);
    }
    out
}

pub fn hades_mds() -> Vec<BlsScalar> {
    let mut out = Vec::new();
    for i in 0..5u64 {
        for j in 0..5u64 {
            out.push((BlsScalar::from(i) + BlsScalar::from(j + 5)).invert().unwrap());
        }
    }
    out
}

/// `Compiler::max_constraints` as documented: the largest power of two not
/// above (max_degree - 6), minus the padding of 6.
pub fn max_constraints(max_degree: usize) -> usize {
    let available = max_degree.saturating_sub(6);
    if available == 0 {
        return 0;
    }
    let dom = 1usize << (usize::BITS - available.leading_zeros() - 1);
    dom.saturating_sub(6)
}
