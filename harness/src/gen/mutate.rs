//! Byte mutators: generic (bit flips, truncation, splices) and structure
//! aware (length fields, group encodings, scalars) for the crate's formats.

use dusk_bls12_381::{BlsScalar, G1Affine, G1Projective};
use dusk_bytes::Serializable;
use rand_core::RngCore;

/// BLS12-381 base field modulus p, little-endian 64-bit limbs.
pub const FP_MODULUS: [u64; 6] = [
    0xb9fe_ffff_ffff_aaab,
    0x1eab_fffe_b153_ffff,
    0x6730_d2a0_f6b0_f624,
    0x6477_4b84_f385_12bf,
    0x4b1b_a7b6_434b_acd7,
    0x1a01_11ea_397f_e69a,
];

/// scalar field modulus r as 32 little-endian bytes
pub fn r_bytes() -> [u8; 32] {
    let mut b = (-BlsScalar::one()).to_bytes();
    // + 1
    for x in b.iter_mut() {
        let (v, c) = x.overflowing_add(1);
        *x = v;
        if !c {
            break;
        }
    }
    b
}

/// 32 little-endian bytes + small value (no reduction)
pub fn add_small(mut b: [u8; 32], mut v: u64) -> [u8; 32] {
    for x in b.iter_mut() {
        let s = *x as u64 + (v & 0xff);
        *x = s as u8;
        v = (v >> 8) + (s >> 8);
        if v == 0 {
            break;
        }
    }
    b
}

pub fn limbs_lt_modulus(limbs: &[u64; 6]) -> bool {
    for i in (0..6).rev() {
        if limbs[i] < FP_MODULUS[i] {
            return true;
        }
        if limbs[i] > FP_MODULUS[i] {
            return false;
        }
    }
    false
}

pub fn le_limbs(b: &[u8]) -> [u64; 6] {
    let mut l = [0u64; 6];
    for (i, c) in b.chunks_exact(8).take(6).enumerate() {
        l[i] = u64::from_le_bytes(c.try_into().unwrap());
    }
    l
}

/// limbs + p (no reduction), wrapping at 2^384
pub fn limbs_add_modulus(l: &[u64; 6]) -> [u64; 6] {
    let mut out = [0u64; 6];
    let mut carry = 0u128;
    for i in 0..6 {
        let s = l[i] as u128 + FP_MODULUS[i] as u128 + carry;
        out[i] = s as u64;
        carry = s >> 64;
    }
    out
}

/// p as 48 big-endian bytes (the compressed-encoding byte order)
pub fn p_be() -> [u8; 48] {
    let mut b = [0u8; 48];
    for i in 0..6 {
        b[48 - 8 * (i + 1)..48 - 8 * i].copy_from_slice(&FP_MODULUS[i].to_be_bytes());
    }
    b
}

pub fn random_g1(rng: &mut impl RngCore) -> G1Affine {
    use ff::Field;
    (G1Projective::generator() * BlsScalar::random(rng)).into()
}

/// Invalid / edge encodings of a compressed G1 point (48 bytes).
pub fn hostile_g1_compressed(rng: &mut impl RngCore, valid: &[u8]) -> (&'static str, Vec<u8>) {
    let mut v = valid.to_vec();
    match rng.next_u32() % 12 {
        0 => {
            v[0] &= 0x7f; // compression flag cleared
            ("compression-flag-cleared", v)
        }
        1 => {
            v[0] |= 0x40; // infinity flag on a finite point
            ("infinity-flag-with-x", v)
        }
        2 => {
            v[0] ^= 0x20; // sign flipped: the negated point (valid!)
            ("sign-flipped", v)
        }
        3 => {
            // canonical infinity
            let mut z = vec![0u8; 48];
            z[0] = 0xc0;
            ("infinity", z)
        }
        4 => {
            // infinity with the sign bit
            let mut z = vec![0u8; 48];
            z[0] = 0xe0;
            ("infinity-with-sign", z)
        }
        5 => {
            // x = p (not reduced)
            let mut z = p_be().to_vec();
            z[0] |= 0x80;
            ("x=p", z)
        }
        6 => {
            // x + p where it fits in 381 bits: take x small
            let mut z = p_be();
            // add 4 (x=4 is not necessarily on curve, irrelevant: must be rejected as non-canonical)
            z[47] = z[47].wrapping_add(4);
            let mut z = z.to_vec();
            z[0] |= 0x80;
            ("x=p+4", z)
        }
        7 => {
            // random x: almost surely not in the subgroup / not on the curve
            for b in v.iter_mut().skip(1) {
                *b = rng.next_u32() as u8;
            }
            ("random-x", v)
        }
        8 => {
            // x = 0 with compression flag: on the curve? y^2 = 4 -> y = ±2: a
            // point of the curve outside the prime-order subgroup
            let mut z = vec![0u8; 48];
            z[0] = 0x80;
            ("x=0-small-order", z)
        }
        9 => ("all-zero", vec![0u8; 48]),
        10 => ("all-ff", vec![0xffu8; 48]),
        _ => {
            let i = 1 + rng.next_u32() as usize % 47;
            v[i] ^= 1 << (rng.next_u32() % 8);
            ("bit-flip-in-x", v)
        }
    }
}

/// Non-canonical / edge scalar encodings (32 bytes LE).
pub fn hostile_scalar(rng: &mut impl RngCore, valid: &[u8]) -> (&'static str, Vec<u8>) {
    match rng.next_u32() % 8 {
        0 => ("r", r_bytes().to_vec()),
        1 => ("r+s", {
            let mut a = [0u8; 32];
            a.copy_from_slice(valid);
            // only if it does not overflow 256 bits; small s guaranteed by using low byte
            add_small(r_bytes(), a[0] as u64 + 1).to_vec()
        }),
        2 => ("all-ff", vec![0xff; 32]),
        3 => ("2^255", {
            let mut z = vec![0u8; 32];
            z[31] = 0x80;
            z
        }),
        4 => ("r-1", (-BlsScalar::one()).to_bytes().to_vec()),
        5 => ("zero", vec![0u8; 32]),
        6 => ("top-bit-set", {
            let mut v = valid.to_vec();
            v[31] |= 0x80;
            v
        }),
        _ => ("bit-flip", {
            let mut v = valid.to_vec();
            v[rng.next_u32() as usize % 32] ^= 1 << (rng.next_u32() % 8);
            v
        }),
    }
}

/// Raw (97-byte) G1 encodings: limbs + k*p, flag bytes, off-curve.
pub fn hostile_g1_raw(rng: &mut impl RngCore, valid: &[u8]) -> (&'static str, Vec<u8>) {
    let mut v = valid.to_vec();
    match rng.next_u32() % 11 {
        9 | 10 if valid[96] == 0 => {
            // on the curve, outside the prime-order subgroup
            // Safety: `valid` is an encoding produced by the library.
            let p = unsafe { G1Affine::from_slice_unchecked(valid) };
            match cofactor_point(rng) {
                Some(t) => {
                    let q: G1Affine = (G1Projective::from(p) + t).into();
                    ("on-curve-outside-subgroup", q.to_raw_bytes().to_vec())
                }
                None => {
                    v[96] = 3;
                    ("flag=3", v)
                }
            }
        }
        0 => {
            v[96] = 2;
            ("flag=2", v)
        }
        1 => {
            v[96] = 255;
            ("flag=255", v)
        }
        2 => {
            v[96] = 1;
            ("flag=1-with-coordinates", v)
        }
        3 => {
            let l = limbs_add_modulus(&le_limbs(&v[0..48]));
            for i in 0..6 {
                v[8 * i..8 * i + 8].copy_from_slice(&l[i].to_le_bytes());
            }
            ("x+p", v)
        }
        4 => {
            let l = limbs_add_modulus(&le_limbs(&v[48..96]));
            for i in 0..6 {
                v[48 + 8 * i..48 + 8 * i + 8].copy_from_slice(&l[i].to_le_bytes());
            }
            ("y+p", v)
        }
        5 => {
            v[rng.next_u32() as usize % 96] ^= 1 << (rng.next_u32() % 8);
            ("bit-flip", v)
        }
        6 => {
            for b in v.iter_mut().take(96) {
                *b = 0;
            }
            ("zero-coordinates", v)
        }
        7 => {
            // swap x and y: off the curve
            let (x, y) = (v[0..48].to_vec(), v[48..96].to_vec());
            v[0..48].copy_from_slice(&y);
            v[48..96].copy_from_slice(&x);
            ("xy-swapped", v)
        }
        _ => {
            for b in v.iter_mut().take(96) {
                *b = 0xff;
            }
            ("all-ff", v)
        }
    }
}

pub const LEN_EDITS: [(&str, i128); 9] = [
    ("=0", i128::MIN),
    ("+1", 1),
    ("-1", -1),
    ("+8", 8),
    ("=2^32", (1i128 << 32) | (1i128 << 100)),
    ("=2^63", (1i128 << 63) | (1i128 << 100)),
    ("=u64::MAX", (u64::MAX as i128) | (1i128 << 100)),
    ("+2^20", 1 << 20),
    ("*2", 0),
];

/// Edit a u64 length field at `off` (big or little endian).
pub fn edit_len(bytes: &mut [u8], off: usize, be: bool, edit: usize) -> &'static str {
    let cur = if be {
        u64::from_be_bytes(bytes[off..off + 8].try_into().unwrap())
    } else {
        u64::from_le_bytes(bytes[off..off + 8].try_into().unwrap())
    };
    let (name, e) = LEN_EDITS[edit % LEN_EDITS.len()];
    let new: u64 = if e == i128::MIN {
        0
    } else if e & (1i128 << 100) != 0 {
        (e & !(1i128 << 100)) as u64
    } else if name == "*2" {
        cur.wrapping_mul(2)
    } else {
        (cur as i128 + e).max(0) as u64
    };
    let b = if be { new.to_be_bytes() } else { new.to_le_bytes() };
    bytes[off..off + 8].copy_from_slice(&b);
    name
}

/// Generic mutation: returns (class, bytes).
pub fn generic(rng: &mut impl RngCore, valid: &[u8], other: &[u8]) -> (&'static str, Vec<u8>) {
    let mut v = valid.to_vec();
    match rng.next_u32() % 9 {
        0 => {
            if !v.is_empty() {
                let i = rng.next_u32() as usize % v.len();
                v[i] ^= 1 << (rng.next_u32() % 8);
            }
            ("bit-flip", v)
        }
        1 => {
            if !v.is_empty() {
                let i = rng.next_u32() as usize % v.len();
                v[i] = [0u8, 0xff, 0x80, 0x7f, 1][rng.next_u32() as usize % 5];
            }
            ("byte-set", v)
        }
        2 => {
            let n = rng.next_u32() as usize % (v.len() + 1);
            v.truncate(n);
            ("truncate-random", v)
        }
        3 => {
            let k = 1 + rng.next_u32() as usize % 8;
            let n = v.len().saturating_sub(k);
            v.truncate(n);
            ("truncate-tail", v)
        }
        4 => {
            for _ in 0..(1 + rng.next_u32() % 64) {
                v.push(rng.next_u32() as u8);
            }
            ("extend", v)
        }
        5 => {
            // splice: head of valid, tail of other
            if !v.is_empty() && !other.is_empty() {
                let cut = rng.next_u32() as usize % v.len();
                v.truncate(cut);
                let from = cut.min(other.len());
                v.extend_from_slice(&other[from..]);
            }
            ("splice", v)
        }
        6 => {
            // zero a window
            if v.len() > 8 {
                let i = rng.next_u32() as usize % (v.len() - 8);
                let n = 1 + rng.next_u32() as usize % 64;
                for b in v.iter_mut().skip(i).take(n) {
                    *b = 0;
                }
            }
            ("zero-window", v)
        }
        7 => {
            if v.len() > 8 {
                let i = rng.next_u32() as usize % (v.len() - 8);
                let n = 1 + rng.next_u32() as usize % 64;
                for b in v.iter_mut().skip(i).take(n) {
                    *b = 0xff;
                }
            }
            ("ff-window", v)
        }
        _ => {
            // shuffle two 32-byte words
            if v.len() >= 128 {
                let a = (rng.next_u32() as usize % (v.len() / 32 - 1)) * 32;
                let b = (rng.next_u32() as usize % (v.len() / 32 - 1)) * 32;
                for k in 0..32 {
                    v.swap(a + k, b + k);
                }
            }
            ("swap-words", v)
        }
    }
}

/// The canonical 172-byte evaluation-domain header for a domain of 2^log
/// points, computed from the field's published constants: size (u64 LE),
/// log2 size (u32 LE), size as a field element, its inverse, the primitive
/// root of unity of that order, its inverse, and the inverse of the coset
/// generator.
pub fn canonical_domain_header(log: u32) -> Vec<u8> {
    use dusk_bls12_381::{GENERATOR, ROOT_OF_UNITY, TWO_ADACITY};
    let size = 1u64 << log;
    let mut g = ROOT_OF_UNITY;
    for _ in log..TWO_ADACITY {
        g = g.square();
    }
    let sf = BlsScalar::from(size);
    let mut out = Vec::with_capacity(172);
    out.extend_from_slice(&size.to_le_bytes());
    out.extend_from_slice(&log.to_le_bytes());
    for x in [sf, sf.invert().unwrap(), g, g.invert().unwrap(), GENERATOR.invert().unwrap()] {
        out.extend_from_slice(&x.to_bytes());
    }
    out
}

// ---------------------------------------------------------------------------
// Several group elements edited together: every edited point stays on the
// curve but leaves the prime-order subgroup, and the cofactor components
// cancel (+T and -T on two points, or T, T, T for a point T of order 3), so a
// check applied to an aggregate of the points instead of to each point sees
// nothing.
// ---------------------------------------------------------------------------


/// A non-trivial point of the cofactor subgroup of E(Fp): [r]R for a random
/// curve point R (r as the scalar -1, plus R).
fn cofactor_point(rng: &mut impl RngCore) -> Option<G1Projective> {
    for _ in 0..64 {
        let mut x = [0u8; 48];
        rng.fill_bytes(&mut x);
        x[0] = (x[0] & 0x1f) | 0x80; // compressed, not infinity, sign 0, x < 2^381
        let Some(r) = Option::<G1Affine>::from(G1Affine::from_compressed_unchecked(&x)) else { continue };
        if !bool::from(r.is_on_curve()) {
            continue;
        }
        let rp = G1Projective::from(r);
        let t = rp * (-BlsScalar::one()) + rp;
        if !bool::from(t.is_identity()) {
            return Some(t);
        }
    }
    None
}

/// Shift `k` (2 or 3) of the given points by cancelling cofactor components.
/// `get`/`put` read and write point number i of the encoding.
pub fn cancelling_cofactor_shift(
    rng: &mut impl RngCore,
    count: usize,
    get: &dyn Fn(usize) -> Option<G1Affine>,
    put: &mut dyn FnMut(usize, G1Affine),
) -> Option<&'static str> {
    if count < 2 {
        return None;
    }
    let t = cofactor_point(rng)?;
    let i = rng.next_u32() as usize % count;
    let mut j = rng.next_u32() as usize % count;
    if j == i {
        j = (i + 1) % count;
    }
    let three = count >= 3 && rng.next_u32() % 3 == 0;
    if three {
        // T1 + T2 + T3 = 0 with T3 = -(T1 + T2), T2 = [2]T1
        let mut l = rng.next_u32() as usize % count;
        while l == i || l == j {
            l = (l + 1) % count;
        }
        let t2 = t.double();
        let t3 = -(t + t2);
        put(i, (G1Projective::from(get(i)?) + t).into());
        put(j, (G1Projective::from(get(j)?) + t2).into());
        put(l, (G1Projective::from(get(l)?) + t3).into());
        Some("three-points-with-cancelling-cofactor-components")
    } else {
        put(i, (G1Projective::from(get(i)?) + t).into());
        put(j, (G1Projective::from(get(j)?) - t).into());
        Some("two-points-with-cancelling-cofactor-components")
    }
}

/// The same on a run of raw (97-byte) encodings starting at `off`.
pub fn cancelling_raw(rng: &mut impl RngCore, v: &mut Vec<u8>, off: usize, count: usize) -> Option<&'static str> {
    let snapshot = v.clone();
    let get = |i: usize| -> Option<G1Affine> {
        let b = &snapshot[off + 97 * i..off + 97 * i + 97];
        if b[96] != 0 {
            return None;
        }
        // Safety: bytes of a valid encoding produced by the library itself.
        Some(unsafe { G1Affine::from_slice_unchecked(b) })
    };
    let mut put = |i: usize, p: G1Affine| v[off + 97 * i..off + 97 * i + 97].copy_from_slice(&p.to_raw_bytes());
    cancelling_cofactor_shift(rng, count, &get, &mut put)
}

/// The same on a run of compressed (48-byte) encodings starting at `off`.
pub fn cancelling_compressed(rng: &mut impl RngCore, v: &mut Vec<u8>, off: usize, count: usize) -> Option<&'static str> {
    let snapshot = v.clone();
    let get = |i: usize| -> Option<G1Affine> {
        let mut a = [0u8; 48];
        a.copy_from_slice(&snapshot[off + 48 * i..off + 48 * i + 48]);
        Option::<G1Affine>::from(G1Affine::from_compressed_unchecked(&a))
    };
    let mut put = |i: usize, p: G1Affine| v[off + 48 * i..off + 48 * i + 48].copy_from_slice(&p.to_compressed());
    cancelling_cofactor_shift(rng, count, &get, &mut put)
}
