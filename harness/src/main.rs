//! `vh <ID> [--tier quick|thorough] [--seed N]` — run one property check.

mod checks;
mod gen;
mod mon;
mod refimpl;
mod util;

#[cfg(not(feature = "no-alloc-monitor"))]
#[global_allocator]
static GLOBAL: mon::alloc::Counting = mon::alloc::Counting;

use mon::evidence::{Ev, Tier};

fn main() {
    let args: Vec<String> = std::env::args().collect();
    if args.len() < 2 {
        eprintln!("usage: vh <ID> [--tier quick|thorough] [--seed N] [--sub name]");
        std::process::exit(2);
    }
    let id = args[1].clone();
    let mut tier = match std::env::var("VERIF_TIER").ok().as_deref() {
        Some("thorough") => Tier::Thorough,
        _ => Tier::Quick,
    };
    let mut seed: u64 = std::env::var("VERIF_SEED")
        .ok()
        .and_then(|s| s.parse::<i64>().ok())
        .map(|v| v as u64)
        .unwrap_or(1);
    let mut sub: Option<String> = None;
    let mut i = 2;
    while i < args.len() {
        match args[i].as_str() {
            "--tier" => {
                i += 1;
                tier = if args.get(i).map(|s| s.as_str()) == Some("thorough") {
                    Tier::Thorough
                } else {
                    Tier::Quick
                };
            }
            "--seed" => {
                i += 1;
                seed = args.get(i).and_then(|s| s.parse::<i64>().ok()).map(|v| v as u64).unwrap_or(1);
            }
            "--sub" => {
                i += 1;
                sub = args.get(i).cloned();
            }
            _ => {}
        }
        i += 1;
    }
    mon::panic::install_hook();
    let code = match std::panic::catch_unwind(|| checks::dispatch(&id, tier, seed, sub.as_deref())) {
        Ok(c) => c,
        Err(_) => {
            println!("INCONCLUSIVE property={id} harness error (panic outside the code under test)");
            2
        }
    };
    std::process::exit(code);
}

pub fn new_ev(id: &'static str, tier: Tier, seed: u64) -> Ev {
    Ev::new(id, tier, seed)
}
