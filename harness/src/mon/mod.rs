pub mod alloc;
pub mod evidence;
pub mod panic;
pub mod rng;
#[cfg(feature = "plonk-std")]
pub mod sched;
