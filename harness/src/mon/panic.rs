//! Panic capture: calls into the code under test go through `guard`, so a
//! panic there is an observation (with message and location), while a panic
//! in harness code propagates and makes the run inconclusive.

use std::cell::RefCell;
use std::panic::{catch_unwind, AssertUnwindSafe};
use std::sync::Once;

thread_local! {
    static LAST: RefCell<Option<String>> = const { RefCell::new(None) };
    static GUARDED: RefCell<u32> = const { RefCell::new(0) };
}

static HOOK: Once = Once::new();

pub fn install_hook() {
    HOOK.call_once(|| {
        let default = std::panic::take_hook();
        std::panic::set_hook(Box::new(move |info| {
            let guarded = GUARDED.with(|g| *g.borrow() > 0);
            let loc = info
                .location()
                .map(|l| format!("{}:{}", l.file(), l.line()))
                .unwrap_or_default();
            let msg = if let Some(s) = info.payload().downcast_ref::<&str>() {
                s.to_string()
            } else if let Some(s) = info.payload().downcast_ref::<String>() {
                s.clone()
            } else {
                "<non-string panic>".to_string()
            };
            if guarded {
                LAST.with(|l| *l.borrow_mut() = Some(format!("{msg} @ {loc}")));
            } else {
                default(info);
            }
        }));
    });
}

/// Run `f` (a call into the code under test); a panic becomes `Err(message @
/// file:line)`.
pub fn guard<T>(f: impl FnOnce() -> T) -> Result<T, String> {
    install_hook();
    GUARDED.with(|g| *g.borrow_mut() += 1);
    let r = catch_unwind(AssertUnwindSafe(f));
    GUARDED.with(|g| *g.borrow_mut() -= 1);
    match r {
        Ok(v) => Ok(v),
        Err(_) => Err(LAST
            .with(|l| l.borrow_mut().take())
            .unwrap_or_else(|| "<panic>".to_string())),
    }
}

/// Location part ("file:line") of a guard error, for signatures.
pub fn panic_site(msg: &str) -> String {
    let loc = msg.rsplit(" @ ").next().unwrap_or("");
    // strip the registry / repo prefix so signatures are stable
    let loc = loc.rsplit("/src/").next().map(|s| format!("src/{s}")).unwrap_or_default();
    loc
}
