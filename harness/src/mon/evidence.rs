//! Evidence, verdicts, known findings, replay files.
//!
//! Verdicts are three-valued: exit 0 (held on everything observed), exit 1
//! with a `VIOLATION` line (a case refuted the property and is not a listed
//! known finding), exit 2 (inconclusive: a coverage floor was missed or the
//! harness itself failed).

use std::collections::{BTreeMap, BTreeSet, HashSet};
use std::path::PathBuf;
use std::sync::atomic::{AtomicU64, Ordering};
use std::sync::Mutex;
use std::time::Instant;

use serde_json::{json, Value};

/// Root of the verification tree this binary belongs to (`bin/check` exports
/// `VERIF_DIR`; a snapshot of /verif therefore keeps everything it writes to
/// itself).
pub fn verif_dir() -> String {
    std::env::var("VERIF_DIR").unwrap_or_else(|_| "/verif".to_string())
}

/// Where the evidence file goes: `VERIF_EVIDENCE_DIR` if set (runs against a
/// deliberately broken tree must not overwrite the evidence of the unchanged
/// one), else `<verif>/evidence`.
pub fn evidence_dir() -> String {
    std::env::var("VERIF_EVIDENCE_DIR").unwrap_or_else(|_| format!("{}/evidence", verif_dir()))
}

#[derive(Clone, Copy, PartialEq, Eq, Debug)]
pub enum Tier {
    Quick,
    Thorough,
}

impl Tier {
    pub fn name(&self) -> &'static str {
        match self {
            Tier::Quick => "quick",
            Tier::Thorough => "thorough",
        }
    }
    /// pick by tier
    pub fn pick<T>(&self, quick: T, thorough: T) -> T {
        match self {
            Tier::Quick => quick,
            Tier::Thorough => thorough,
        }
    }
}

pub struct Ev {
    pub id: &'static str,
    pub tier: Tier,
    pub seed: u64,
    start: Instant,
    evaluations: AtomicU64,
    fingerprints: Mutex<HashSet<[u8; 16]>>,
    samples: Mutex<Vec<Value>>,
    buckets: Mutex<BTreeMap<String, u64>>,
    sets: Mutex<BTreeMap<String, BTreeSet<String>>>,
    violations: Mutex<Vec<(String, PathBuf)>>,
    known_hit: Mutex<BTreeSet<String>>,
    inconclusive: Mutex<Vec<String>>,
    known: Vec<(String, String, String)>, // (property, signature, what)
    pub rule: Mutex<String>,
    pub assumptions: Mutex<Vec<String>>,
    extra: Mutex<BTreeMap<String, Value>>,
}

fn load_known(id: &str) -> Vec<(String, String, String)> {
    let path = format!("{}/known_findings.json", verif_dir());
    let Ok(text) = std::fs::read_to_string(&path) else {
        return Vec::new();
    };
    let Ok(v) = serde_json::from_str::<Value>(&text) else {
        eprintln!("harness: cannot parse {path}");
        std::process::exit(2);
    };
    let mut out = Vec::new();
    if let Some(list) = v.get("findings").and_then(|f| f.as_array()) {
        for f in list {
            let status = f.get("status").and_then(|s| s.as_str()).unwrap_or("");
            // "fixed" entries suppress nothing.
            if status != "known" {
                continue;
            }
            let prop = f.get("property").and_then(|s| s.as_str()).unwrap_or("");
            if prop != id {
                continue;
            }
            let sig = f.get("signature").and_then(|s| s.as_str()).unwrap_or("");
            let what = f.get("what").and_then(|s| s.as_str()).unwrap_or("");
            out.push((prop.to_string(), sig.to_string(), what.to_string()));
        }
    }
    out
}

impl Ev {
    pub fn new(id: &'static str, tier: Tier, seed: u64) -> Self {
        Ev {
            id,
            tier,
            seed,
            start: Instant::now(),
            evaluations: AtomicU64::new(0),
            fingerprints: Mutex::new(HashSet::new()),
            samples: Mutex::new(Vec::new()),
            buckets: Mutex::new(BTreeMap::new()),
            sets: Mutex::new(BTreeMap::new()),
            violations: Mutex::new(Vec::new()),
            known_hit: Mutex::new(BTreeSet::new()),
            inconclusive: Mutex::new(Vec::new()),
            known: load_known(id),
            rule: Mutex::new(String::new()),
            assumptions: Mutex::new(Vec::new()),
            extra: Mutex::new(BTreeMap::new()),
        }
    }

    pub fn set_rule(&self, r: &str) {
        *self.rule.lock().unwrap() = r.to_string();
    }

    pub fn assume(&self, a: &str) {
        self.assumptions.lock().unwrap().push(a.to_string());
    }

    /// Record one executed case. `desc` is the case descriptor; it is
    /// fingerprinted (blake2b) for `distinct_nontrivial` when `nontrivial`.
    pub fn case(&self, desc: &Value, nontrivial: bool) {
        self.evaluations.fetch_add(1, Ordering::Relaxed);
        if nontrivial {
            let s = desc.to_string();
            let h = blake2b_simd::Params::new().hash_length(16).hash(s.as_bytes());
            let mut fp = [0u8; 16];
            fp.copy_from_slice(h.as_bytes());
            self.fingerprints.lock().unwrap().insert(fp);
            let mut samples = self.samples.lock().unwrap();
            if samples.len() < 6 {
                let mut s = desc.clone();
                truncate_value(&mut s);
                samples.push(s);
            }
        }
    }

    /// Like `case` but with a cheap textual fingerprint and no sample.
    pub fn case_fp(&self, fp_text: &str, nontrivial: bool) {
        self.evaluations.fetch_add(1, Ordering::Relaxed);
        if nontrivial {
            let h = blake2b_simd::Params::new()
                .hash_length(16)
                .hash(fp_text.as_bytes());
            let mut fp = [0u8; 16];
            fp.copy_from_slice(h.as_bytes());
            self.fingerprints.lock().unwrap().insert(fp);
        }
    }

    pub fn sample(&self, desc: Value) {
        let mut samples = self.samples.lock().unwrap();
        if samples.len() < 8 {
            let mut s = desc;
            truncate_value(&mut s);
            samples.push(s);
        }
    }

    pub fn bucket(&self, name: &str) {
        self.bucket_add(name, 1);
    }

    pub fn bucket_add(&self, name: &str, n: u64) {
        *self.buckets.lock().unwrap().entry(name.to_string()).or_insert(0) += n;
    }

    pub fn bucket_get(&self, name: &str) -> u64 {
        self.buckets.lock().unwrap().get(name).copied().unwrap_or(0)
    }

    /// Record a member of a named coverage set (e.g. sizes hit).
    pub fn set_insert(&self, set: &str, member: impl ToString) {
        self.sets
            .lock()
            .unwrap()
            .entry(set.to_string())
            .or_default()
            .insert(member.to_string());
    }

    pub fn sets_contains(&self, set: &str, member: &str) -> bool {
        self.sets.lock().unwrap().get(set).map(|s| s.contains(member)).unwrap_or(false)
    }

    pub fn set_len(&self, set: &str) -> usize {
        self.sets.lock().unwrap().get(set).map(|s| s.len()).unwrap_or(0)
    }

    /// Number of members of a set that parse as integers above `min`.
    pub fn set_members_above(&self, set: &str, min: u64) -> u64 {
        self.sets
            .lock()
            .unwrap()
            .get(set)
            .map(|s| s.iter().filter(|m| m.parse::<u64>().map(|v| v > min).unwrap_or(false)).count() as u64)
            .unwrap_or(0)
    }

    pub fn extra(&self, key: &str, v: Value) {
        self.extra.lock().unwrap().insert(key.to_string(), v);
    }

    /// Coverage floor: fewer than `min` ⇒ inconclusive (exit 2).
    pub fn floor(&self, what: &str, have: u64, min: u64) {
        if have < min {
            self.inconclusive
                .lock()
                .unwrap()
                .push(format!("floor missed: {what}: {have} < {min}"));
        }
    }

    pub fn inconclusive(&self, why: &str) {
        self.inconclusive.lock().unwrap().push(why.to_string());
    }

    pub fn known_hits(&self) -> usize {
        self.known_hit.lock().unwrap().len()
    }

    pub fn violations(&self) -> usize {
        self.violations.lock().unwrap().len()
    }

    /// Report a refuting case. `signature` identifies the failing input /
    /// call site exactly; it is matched against known_findings.json.
    pub fn violation(&self, signature: &str, detail: Value) {
        if let Some((_, sig, what)) =
            self.known.iter().find(|(_, sig, _)| sig == signature)
        {
            let mut hit = self.known_hit.lock().unwrap();
            if hit.insert(sig.clone()) {
                println!("KNOWN-FINDING: property={} {} [{}]", self.id, what, sig);
            }
            return;
        }
        let mut v = self.violations.lock().unwrap();
        // Cap the number of replay files per run; keep counting.
        let k = v.len();
        let dir = format!("{}/replays", verif_dir());
        let _ = std::fs::create_dir_all(&dir);
        let path = PathBuf::from(format!(
            "{dir}/{}-{}-{}-{}.json",
            self.id,
            self.tier.name(),
            self.seed,
            k
        ));
        let same = v.iter().filter(|(s, _)| s == signature).count();
        if k < 200 && same < 2 {
            let body = json!({
                "property": self.id,
                "tier": self.tier.name(),
                "seed": self.seed,
                "signature": signature,
                "detail": detail,
            });
            let _ = std::fs::write(&path, serde_json::to_string_pretty(&body).unwrap());
            println!(
                "VIOLATION property={} replay={} signature={}",
                self.id,
                path.display(),
                signature
            );
        }
        v.push((signature.to_string(), path));
    }

    /// Write the evidence file and return the process exit code.
    pub fn finish(&self) -> i32 {
        let violations = self.violations.lock().unwrap();
        let inconclusive = self.inconclusive.lock().unwrap();
        let distinct = self.fingerprints.lock().unwrap().len() as u64;
        let evaluations = self.evaluations.load(Ordering::Relaxed);
        let mut coverage = serde_json::Map::new();
        coverage.insert("evaluations".into(), json!(evaluations));
        coverage.insert("distinct_nontrivial".into(), json!(distinct));
        coverage.insert("rule".into(), json!(*self.rule.lock().unwrap()));
        let samples = self.samples.lock().unwrap().clone();
        coverage.insert("samples".into(), Value::Array(samples));
        coverage.insert(
            "buckets".into(),
            json!(*self.buckets.lock().unwrap()),
        );
        let sets: BTreeMap<String, Value> = self
            .sets
            .lock()
            .unwrap()
            .iter()
            .map(|(k, v)| {
                let members: Vec<&String> = v.iter().take(64).collect();
                (k.clone(), json!({"count": v.len(), "members": members}))
            })
            .collect();
        coverage.insert("sets".into(), json!(sets));
        for (k, v) in self.extra.lock().unwrap().iter() {
            coverage.insert(k.clone(), v.clone());
        }
        let known: Vec<String> = self.known_hit.lock().unwrap().iter().cloned().collect();
        coverage.insert("known_findings_reproduced".into(), json!(known));
        coverage.insert("inconclusive".into(), json!(*inconclusive));
        let mut sigs: BTreeMap<String, u64> = BTreeMap::new();
        for (s, _) in violations.iter() {
            *sigs.entry(s.clone()).or_insert(0) += 1;
        }
        coverage.insert("violation_signatures".into(), json!(sigs));
        let ev = json!({
            "property_id": self.id,
            "tier": self.tier.name(),
            "seed": self.seed,
            "level": "exploration",
            "coverage": Value::Object(coverage),
            "assumptions": *self.assumptions.lock().unwrap(),
            "wall_s": self.start.elapsed().as_secs_f64(),
            "violations": violations.len(),
        });
        let dir = evidence_dir();
        let _ = std::fs::create_dir_all(&dir);
        let path = format!("{dir}/{}.json", self.id);
        if let Err(e) = std::fs::write(&path, serde_json::to_string_pretty(&ev).unwrap()) {
            eprintln!("harness: cannot write {path}: {e}");
            return 2;
        }
        println!(
            "{} {} seed={} evaluations={} distinct_nontrivial={} violations={} wall={:.1}s",
            self.id,
            self.tier.name(),
            self.seed,
            evaluations,
            distinct,
            violations.len(),
            self.start.elapsed().as_secs_f64()
        );
        if !violations.is_empty() {
            return 1;
        }
        let hp = crate::util::harness_panics();
        if hp > 0 {
            println!("INCONCLUSIVE property={} {} case(s) abandoned after a harness error (see the panic messages above)", self.id, hp);
            return 2;
        }
        if !inconclusive.is_empty() {
            for w in inconclusive.iter() {
                println!("INCONCLUSIVE property={} {}", self.id, w);
            }
            return 2;
        }
        if distinct < 2 || evaluations < 1 {
            println!("INCONCLUSIVE property={} observed nothing", self.id);
            return 2;
        }
        0
    }
}

/// Keep sample descriptors readable: long strings/arrays are cut.
fn truncate_value(v: &mut Value) {
    match v {
        Value::String(s) => {
            if s.len() > 200 {
                let n = s.len();
                s.truncate(160);
                s.push_str(&format!("…(+{} chars)", n - 160));
            }
        }
        Value::Array(a) => {
            if a.len() > 24 {
                let n = a.len();
                a.truncate(20);
                a.push(Value::String(format!("…(+{} items)", n - 20)));
            }
            for x in a.iter_mut() {
                truncate_value(x);
            }
        }
        Value::Object(o) => {
            for (_, x) in o.iter_mut() {
                truncate_value(x);
            }
        }
        _ => {}
    }
}
