//! Deterministic and scripted random number generators.

use std::sync::{Arc, Mutex};

use dusk_bls12_381::BlsScalar;
use rand_chacha::ChaCha20Rng;
use rand_core::{CryptoRng, RngCore, SeedableRng};

/// Workload RNG: a ChaCha stream keyed by (seed, check id, case index).
pub fn case_rng(seed: u64, id: &str, case: u64) -> ChaCha20Rng {
    let mut p = blake2b_simd::Params::new();
    p.hash_length(32);
    let mut st = p.to_state();
    st.update(&seed.to_le_bytes());
    st.update(id.as_bytes());
    st.update(&case.to_le_bytes());
    let h = st.finalize();
    let mut key = [0u8; 32];
    key.copy_from_slice(h.as_bytes());
    ChaCha20Rng::from_seed(key)
}

/// Fixed-seed RNG for SRS setups (independent of VERIF_SEED so that SRS
/// dependent byte comparisons are stable).
pub fn fixed_rng(tag: u64) -> ChaCha20Rng {
    let mut key = [0u8; 32];
    key[..8].copy_from_slice(&tag.to_le_bytes());
    key[8] = 0x5e;
    ChaCha20Rng::from_seed(key)
}

#[derive(Debug, Clone, PartialEq, Eq)]
pub enum RngCall {
    Fill(usize),
    NextU32,
    NextU64,
    TryFill(usize),
}

#[derive(Default, Debug)]
pub struct ScriptLog {
    pub calls: Vec<RngCall>,
    pub overrun: bool,
}

/// Scripted RNG: serves a list of scalars as the 64-byte strings whose wide
/// reduction yields them, logs every call, flags a draw past the script.
pub struct ScriptedRng {
    script: Vec<[u8; 64]>,
    pos: usize,
    pub log: Arc<Mutex<ScriptLog>>,
}

impl ScriptedRng {
    /// `scalars[i]` is what the i-th `BlsScalar::random` call returns.
    pub fn new(scalars: &[BlsScalar]) -> Self {
        let script = scalars
            .iter()
            .map(|s| {
                // from_bytes_wide(lo || hi) = lo + hi * 2^256 (mod r): put the
                // canonical bytes in the low half.
                let mut b = [0u8; 64];
                b[..32].copy_from_slice(&s.to_bytes());
                b
            })
            .collect();
        ScriptedRng {
            script,
            pos: 0,
            log: Arc::new(Mutex::new(ScriptLog::default())),
        }
    }

    pub fn log(&self) -> Arc<Mutex<ScriptLog>> {
        self.log.clone()
    }
}

impl RngCore for ScriptedRng {
    fn next_u32(&mut self) -> u32 {
        self.log.lock().unwrap().calls.push(RngCall::NextU32);
        0x9e37_79b9
    }
    fn next_u64(&mut self) -> u64 {
        self.log.lock().unwrap().calls.push(RngCall::NextU64);
        0x9e37_79b9_7f4a_7c15
    }
    fn fill_bytes(&mut self, dest: &mut [u8]) {
        let mut log = self.log.lock().unwrap();
        log.calls.push(RngCall::Fill(dest.len()));
        if dest.len() == 64 && self.pos < self.script.len() {
            dest.copy_from_slice(&self.script[self.pos]);
            self.pos += 1;
        } else {
            log.overrun = true;
            for (i, b) in dest.iter_mut().enumerate() {
                *b = (i as u8).wrapping_mul(37).wrapping_add(11);
            }
        }
    }
    fn try_fill_bytes(&mut self, dest: &mut [u8]) -> Result<(), rand_core::Error> {
        self.log.lock().unwrap().calls.push(RngCall::TryFill(dest.len()));
        self.fill_bytes(dest);
        Ok(())
    }
}

impl CryptoRng for ScriptedRng {}
