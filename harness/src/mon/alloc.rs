//! Counting global allocator: live / peak bytes, globally and per thread
//! region. Relaxed atomics only; disabled with feature `no-alloc-monitor`
//! (sanitizer builds must see the real allocator).

use std::alloc::{GlobalAlloc, Layout, System};
use std::cell::Cell;
use std::sync::atomic::{AtomicUsize, Ordering};

pub struct Counting;

static LIVE: AtomicUsize = AtomicUsize::new(0);
static PEAK: AtomicUsize = AtomicUsize::new(0);
static TOTAL: AtomicUsize = AtomicUsize::new(0);

thread_local! {
    static T_ON: Cell<bool> = const { Cell::new(false) };
    static T_LIVE: Cell<isize> = const { Cell::new(0) };
    static T_PEAK: Cell<isize> = const { Cell::new(0) };
    static T_TOTAL: Cell<usize> = const { Cell::new(0) };
    static T_MAX_SINGLE: Cell<usize> = const { Cell::new(0) };
}

#[inline]
fn on_alloc(size: usize) {
    let live = LIVE.fetch_add(size, Ordering::Relaxed) + size;
    TOTAL.fetch_add(size, Ordering::Relaxed);
    PEAK.fetch_max(live, Ordering::Relaxed);
    let _ = T_ON.try_with(|on| {
        if on.get() {
            T_LIVE.with(|l| {
                let v = l.get() + size as isize;
                l.set(v);
                T_PEAK.with(|p| {
                    if v > p.get() {
                        p.set(v)
                    }
                });
            });
            T_TOTAL.with(|t| t.set(t.get() + size));
            T_MAX_SINGLE.with(|m| {
                if size > m.get() {
                    m.set(size)
                }
            });
        }
    });
}

#[inline]
fn on_dealloc(size: usize) {
    LIVE.fetch_sub(size, Ordering::Relaxed);
    let _ = T_ON.try_with(|on| {
        if on.get() {
            T_LIVE.with(|l| l.set(l.get() - size as isize));
        }
    });
}

unsafe impl GlobalAlloc for Counting {
    unsafe fn alloc(&self, layout: Layout) -> *mut u8 {
        let p = System.alloc(layout);
        if !p.is_null() {
            on_alloc(layout.size());
        }
        p
    }
    unsafe fn dealloc(&self, ptr: *mut u8, layout: Layout) {
        System.dealloc(ptr, layout);
        on_dealloc(layout.size());
    }
    unsafe fn alloc_zeroed(&self, layout: Layout) -> *mut u8 {
        let p = System.alloc_zeroed(layout);
        if !p.is_null() {
            on_alloc(layout.size());
        }
        p
    }
    unsafe fn realloc(&self, ptr: *mut u8, layout: Layout, new_size: usize) -> *mut u8 {
        let p = System.realloc(ptr, layout, new_size);
        if !p.is_null() {
            on_dealloc(layout.size());
            on_alloc(new_size);
        }
        p
    }
}

#[derive(Debug, Clone, Copy, Default)]
pub struct Region {
    /// peak of (bytes allocated - bytes freed) by this thread inside the region
    pub peak: usize,
    /// total bytes requested by this thread inside the region
    pub total: usize,
    /// largest single request
    pub max_single: usize,
}

/// Measure allocations made *by the calling thread* while `f` runs. (Work
/// that `f` hands to other threads is not attributed; the decoders under
/// measurement are single-threaded.)
pub fn measure<T>(f: impl FnOnce() -> T) -> (T, Region) {
    T_LIVE.with(|l| l.set(0));
    T_PEAK.with(|l| l.set(0));
    T_TOTAL.with(|l| l.set(0));
    T_MAX_SINGLE.with(|l| l.set(0));
    T_ON.with(|o| o.set(true));
    let r = f();
    T_ON.with(|o| o.set(false));
    let region = Region {
        peak: T_PEAK.with(|p| p.get()).max(0) as usize,
        total: T_TOTAL.with(|p| p.get()),
        max_single: T_MAX_SINGLE.with(|p| p.get()),
    };
    (r, region)
}

pub fn enabled() -> bool {
    cfg!(not(feature = "no-alloc-monitor"))
}

pub fn global_peak() -> usize {
    PEAK.load(Ordering::Relaxed)
}
