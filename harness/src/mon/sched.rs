//! Scheduling observer behind `dusk_plonk::verif::sched_point`: logs (site,
//! item, worker thread) and optionally injects seeded delays so that work
//! items land on different threads / in different orders from run to run.
//! Its own state is a mutex-guarded vector touched only inside the callback.

#![cfg(feature = "plonk-std")]

use std::collections::{BTreeMap, BTreeSet};
use std::sync::atomic::{AtomicU64, Ordering};
use std::sync::Mutex;

static LOG: Mutex<Vec<(&'static str, usize, usize)>> = Mutex::new(Vec::new());
static DELAY_SEED: AtomicU64 = AtomicU64::new(0);
static COUNTER: AtomicU64 = AtomicU64::new(0);
static HOT_LOGGED: AtomicU64 = AtomicU64::new(0);
static HOT_SKIPPED: AtomicU64 = AtomicU64::new(0);
const HOT_CAP: u64 = 30_000;

fn mix(mut x: u64) -> u64 {
    x ^= x >> 33;
    x = x.wrapping_mul(0xff51afd7ed558ccd);
    x ^= x >> 33;
    x = x.wrapping_mul(0xc4ceb9fe1a85ec53);
    x ^= x >> 33;
    x
}

pub fn install() {
    dusk_plonk::verif::install_observer(Box::new(|site, item| {
        let thread = rayon::current_thread_index().unwrap_or(usize::MAX);
        let c = COUNTER.fetch_add(1, Ordering::Relaxed);
        // the butterfly site fires once per chunk per stage: log a bounded
        // prefix of it per run, count the rest
        let hot = site == "fft.butterfly_range";
        if !hot || HOT_LOGGED.fetch_add(1, Ordering::Relaxed) < HOT_CAP {
            LOG.lock().unwrap().push((site, item, thread));
        } else {
            HOT_SKIPPED.fetch_add(1, Ordering::Relaxed);
        }
        let seed = DELAY_SEED.load(Ordering::Relaxed);
        if seed != 0 {
            let h = mix(seed ^ (item as u64).rotate_left(17) ^ c.wrapping_mul(0x9e3779b97f4a7c15) ^ site.len() as u64);
            match h % (if hot { 1024 } else { 8 }) {
                0 => std::thread::yield_now(),
                1 => {
                    let t = std::time::Instant::now();
                    let us = 1 + (h >> 8) % 40;
                    while t.elapsed().as_micros() < us as u128 {
                        std::hint::spin_loop();
                    }
                }
                2 => std::thread::sleep(std::time::Duration::from_micros(20 + (h >> 8) % 150)),
                _ => {}
            }
        }
    }));
}

/// Start observing (clears the log). `delay_seed` 0 = observe only.
pub fn start(delay_seed: u64) {
    LOG.lock().unwrap().clear();
    HOT_LOGGED.store(0, Ordering::SeqCst);
    HOT_SKIPPED.store(0, Ordering::SeqCst);
    DELAY_SEED.store(delay_seed, Ordering::SeqCst);
    dusk_plonk::verif::set_observing(true);
}

pub struct Observed {
    pub events: usize,
    /// per site: number of events, distinct threads, digest of the
    /// item->thread assignment, digest of the arrival order
    pub sites: BTreeMap<&'static str, (usize, usize, u64, u64)>,
}

pub fn stop() -> Observed {
    dusk_plonk::verif::set_observing(false);
    DELAY_SEED.store(0, Ordering::SeqCst);
    let log = std::mem::take(&mut *LOG.lock().unwrap());
    let mut sites: BTreeMap<&'static str, (usize, BTreeSet<usize>, Vec<(usize, usize, usize)>, u64)> = BTreeMap::new();
    for (i, (site, item, thread)) in log.iter().enumerate() {
        let e = sites.entry(site).or_insert((0, BTreeSet::new(), Vec::new(), 0));
        e.0 += 1;
        e.1.insert(*thread);
        // the k-th visit of an item (addresses repeat across stages)
        e.2.push((*item, i, *thread));
        e.3 = mix(e.3 ^ (*item as u64).wrapping_mul(31).wrapping_add(*thread as u64) ^ (e.0 as u64) << 40);
    }
    let mut out = BTreeMap::new();
    for (site, (n, threads, mut pairs, order)) in sites {
        // assignment digest: items in address order with their thread, so
        // that it does not depend on arrival order
        pairs.sort();
        // rank the addresses so the digest does not depend on where the
        // allocator placed the buffer
        let mut ranks: BTreeMap<usize, usize> = BTreeMap::new();
        for (item, _, _) in &pairs {
            let next = ranks.len();
            ranks.entry(*item).or_insert(next);
        }
        let mut h = 0u64;
        for (item, _, thread) in &pairs {
            h = mix(h ^ (ranks[item] as u64) << 20 ^ *thread as u64);
        }
        out.insert(site, (n, threads.len(), h, order));
    }
    Observed { events: log.len() + HOT_SKIPPED.load(Ordering::SeqCst) as usize, sites: out }
}
