//! Shared helpers: case workers, hex, scalar pools, SRS cache.

use std::collections::HashMap;
use std::sync::atomic::{AtomicU64, Ordering};
use std::sync::{Arc, Mutex, OnceLock};

use dusk_bls12_381::BlsScalar;
use dusk_bytes::Serializable;
use dusk_plonk::prelude::PublicParameters;
use ff::Field;
use rand_core::RngCore;

pub fn threads() -> usize {
    std::env::var("VERIF_THREADS")
        .ok()
        .and_then(|s| s.parse().ok())
        .unwrap_or_else(|| {
            std::thread::available_parallelism().map(|n| n.get()).unwrap_or(8)
        })
}

/// Run `f(i)` for i in 0..n on `workers` OS threads (cases pulled from a
/// shared counter). A panic inside `f` (i.e. in harness code, the code under
/// test is called through `mon::panic::guard`) propagates.
pub fn par_cases<F: Fn(u64) + Sync>(n: u64, workers: usize, f: F) {
    let next = AtomicU64::new(0);
    std::thread::scope(|s| {
        for _ in 0..workers.max(1) {
            s.spawn(|| loop {
                let i = next.fetch_add(1, Ordering::Relaxed);
                if i >= n {
                    break;
                }
                // A panic in harness code (an assumption of a check about the
                // layout it attacks that the tree under test no longer meets)
                // abandons that one case: it is counted, makes the run
                // inconclusive unless a violation was found, and the per-thread
                // hook state is reset so later cases on this worker are clean.
                if std::panic::catch_unwind(std::panic::AssertUnwindSafe(|| f(i))).is_err() {
                    HARNESS_PANICS.fetch_add(1, Ordering::Relaxed);
                    #[cfg(feature = "plonk-std")]
                    {
                        dusk_plonk::verif::set_forged_witnesses(None);
                        dusk_plonk::verif::set_force_prove(false);
                    }
                }
            });
        }
    });
}

static HARNESS_PANICS: AtomicU64 = AtomicU64::new(0);

/// Number of cases abandoned because harness code panicked.
pub fn harness_panics() -> u64 {
    HARNESS_PANICS.load(Ordering::Relaxed)
}

pub fn hx(s: &BlsScalar) -> String {
    // big-endian hex without leading zeros, easier to read
    let mut b = s.to_bytes();
    b.reverse();
    let h = hex::encode(b);
    let t = h.trim_start_matches('0');
    if t.is_empty() {
        "0".to_string()
    } else {
        t.to_string()
    }
}

pub fn hxs(v: &[BlsScalar]) -> Vec<String> {
    v.iter().map(hx).collect()
}

pub fn rand_scalar<R: RngCore>(rng: &mut R) -> BlsScalar {
    BlsScalar::random(rng)
}

pub fn pow2(k: u32) -> BlsScalar {
    BlsScalar::pow_of_2(k as u64)
}

/// r - 1
pub fn minus_one() -> BlsScalar {
    -BlsScalar::one()
}

/// A scalar from a pool of edge values or random.
pub fn pool_scalar<R: RngCore>(rng: &mut R) -> BlsScalar {
    match rng.next_u32() % 14 {
        13 => {
            // simple in the internal (Montgomery) representation instead of as
            // an integer: limbs [k, 0, 0, 0] denote k * 2^-256 mod r
            BlsScalar([1 + rng.next_u64() % 3, 0, 0, 0])
        }
        12 => {
            // a "field fraction" k/m: small after multiplication by m, huge as
            // an integer ((r + k)/2, k/3, k/4, k/2^j ...)
            let k = BlsScalar::from(1 + rng.next_u64() % 64);
            let m = match rng.next_u32() % 4 {
                0 => BlsScalar::from(2u64),
                1 => BlsScalar::from(3u64),
                2 => BlsScalar::from(4u64),
                _ => pow2(1 + rng.next_u32() % 250),
            };
            k * m.invert().unwrap()
        }
        0 => BlsScalar::zero(),
        1 => BlsScalar::one(),
        2 => minus_one(),
        3 => BlsScalar::from(2u64),
        4 => pow2(rng.next_u32() % 255),
        5 => pow2(rng.next_u32() % 255) - BlsScalar::one(),
        6 => pow2(rng.next_u32() % 255) + BlsScalar::one(),
        7 => BlsScalar::from(rng.next_u64() % 16),
        8 => -BlsScalar::from(rng.next_u64() % 16),
        _ => rand_scalar(rng),
    }
}

pub fn blake_hex(data: &[u8]) -> String {
    let h = blake2b_simd::Params::new().hash_length(16).hash(data);
    hex::encode(h.as_bytes())
}

// ---------------------------------------------------------------------------
// SRS cache. One setup per "family" degree; smaller capacities are prefixes
// of a large one re-decoded through the checked decoder, which is exactly
// what a user holding a shorter SRS file has.
// ---------------------------------------------------------------------------

/// Smallest degree a fresh SRS setup is made for (larger requests grow it).
/// The libFuzzer target lowers it: an instrumented 2^10 setup costs more than
/// its per-input time limit.
pub static PP_MIN_SETUP: AtomicU64 = AtomicU64::new(1 << 10);

static PP_CACHE: OnceLock<Mutex<HashMap<usize, Arc<PublicParameters>>>> = OnceLock::new();
static PP_BIG: OnceLock<Mutex<Option<(usize, Arc<PublicParameters>, Arc<Vec<u8>>)>>> =
    OnceLock::new();

/// Public parameters with `max_degree() == degree + 6`, i.e. what
/// `PublicParameters::setup(degree, ..)` returns.
pub fn pp(degree: usize) -> Arc<PublicParameters> {
    let cache = PP_CACHE.get_or_init(|| Mutex::new(HashMap::new()));
    if let Some(p) = cache.lock().unwrap().get(&degree) {
        return p.clone();
    }
    let big = PP_BIG.get_or_init(|| Mutex::new(None));
    let mut guard = big.lock().unwrap();
    let need_new = match &*guard {
        Some((d, _, _)) => *d < degree,
        None => true,
    };
    if need_new {
        let d = degree.next_power_of_two().max(PP_MIN_SETUP.load(Ordering::Relaxed) as usize);
        let mut rng = crate::mon::rng::fixed_rng(0xC0FFEE);
        let p = PublicParameters::setup(d, &mut rng).expect("srs setup");
        let raw = p.to_raw_var_bytes();
        *guard = Some((d, Arc::new(p), Arc::new(raw)));
    }
    let (d, bigpp, raw) = guard.as_ref().unwrap();
    let out = if *d == degree {
        bigpp.clone()
    } else {
        // prefix of the raw encoding: opening key (240 bytes) | u64 LE count |
        // count * 97 raw bytes
        let count = degree + 6 + 1;
        let ok_len = 48 + 96 + 96;
        let mut bytes = raw[..ok_len].to_vec();
        bytes.extend_from_slice(&(count as u64).to_le_bytes());
        bytes.extend_from_slice(&raw[ok_len + 8..ok_len + 8 + count * 97]);
        // Safety: a prefix of an encoding produced by `to_raw_var_bytes`.
        let p = unsafe { PublicParameters::from_slice_unchecked(&bytes) };
        assert_eq!(p.max_degree(), degree + 6);
        Arc::new(p)
    };
    drop(guard);
    cache.lock().unwrap().insert(degree, out.clone());
    out
}

// ---------------------------------------------------------------------------
// Rayon pools of chosen sizes. Code called from a plain OS thread runs its
// rayon work on the global pool (one size, a power of two on this machine);
// the library's chunking depends on `current_num_threads()`, so checks that
// are not about scheduling still rotate through pool sizes, including sizes
// that do not divide a power-of-two domain.
// ---------------------------------------------------------------------------

/// Pool sizes rotated through by the functional checks.
pub const POOL_SIZES: [usize; 12] = [1, 3, 16, 2, 5, 12, 4, 6, 17, 7, 8, 24];

/// Run `f` on a thread of a cached rayon pool with `threads` threads
/// (`lane` picks one of a few pools of that size, so that concurrent callers
/// do not all queue on one pool). Everything `f` does, thread-locals included,
/// happens on that one pool thread; nested rayon work is spread over the pool.
#[cfg(feature = "plonk-std")]
pub fn in_pool<T: Send>(threads: usize, lane: u64, f: impl FnOnce() -> T + Send) -> T {
    static POOLS: OnceLock<Mutex<HashMap<(usize, u64), Arc<rayon::ThreadPool>>>> = OnceLock::new();
    let key = (threads.max(1), lane % 4);
    let pool = {
        let mut m = POOLS.get_or_init(|| Mutex::new(HashMap::new())).lock().unwrap();
        m.entry(key)
            .or_insert_with(|| Arc::new(rayon::ThreadPoolBuilder::new().num_threads(key.0).build().expect("rayon pool")))
            .clone()
    };
    pool.install(f)
}
