//! C14 — fixed-base multiplication returns [s]G for canonical s only.

use std::sync::Arc;

use dusk_bls12_381::BlsScalar;
use dusk_bytes::Serializable;
use dusk_jubjub::{JubJubExtended, JubJubScalar, GENERATOR_EXTENDED, GENERATOR_NUMS_EXTENDED};
use rand_core::RngCore;
use serde_json::json;

use super::common::{self, Fail};
use super::gadget::{build_forged, substitutions, Case, Honest, Lab};
use crate::gen::program::{Inputs, Op, Program};
use crate::mon::evidence::{Ev, Tier};
use crate::mon::panic::panic_site;
use crate::mon::rng::case_rng;
use crate::refimpl::bigint::U320;
use crate::refimpl::jubjub as rj;
use crate::refimpl::sat;
use crate::util::{hx, par_cases, pow2, rand_scalar, threads};

/// signed digits (least significant first) of a non-negative integer in
/// plain binary
fn binary_digits(x: &U320) -> Option<[i8; 256]> {
    if x.bits() > 256 {
        return None;
    }
    let mut d = [0i8; 256];
    for (i, di) in d.iter_mut().enumerate() {
        *di = x.bit(i) as i8;
    }
    Some(d)
}

/// width-2 NAF of a non-negative integer (own implementation): digits in
/// {-1,0,1}, no two adjacent non-zero
fn naf_digits(x: &U320) -> Option<[i8; 256]> {
    let mut d = [0i8; 256];
    let mut v = *x;
    let mut i = 0;
    while v != U320::ZERO {
        if i >= 256 {
            return None;
        }
        if v.bit(0) == 1 {
            // v mod 4
            let m = v.bit(0) + 2 * v.bit(1);
            if m == 3 {
                d[i] = -1;
                v = v.add(&U320::from_u64(1));
            } else {
                d[i] = 1;
                v = v.checked_sub(&U320::from_u64(1)).unwrap();
            }
        }
        v = v.shr(1);
        i += 1;
    }
    Some(d)
}

/// integer value of a signed digit vector (may be negative): returns
/// (positive part, negative part)
fn digits_value(d: &[i8; 256]) -> (U320, U320) {
    let (mut pos, mut neg) = (U320::ZERO, U320::ZERO);
    for (i, di) in d.iter().enumerate() {
        if *di > 0 {
            pos = pos.add(&U320::pow2(i));
        } else if *di < 0 {
            neg = neg.add(&U320::pow2(i));
        }
    }
    (pos, neg)
}

pub fn run(tier: Tier, seed: u64) -> i32 {
    let ev = Ev::new("C14", tier, seed);
    ev.set_rule(
        "cases = (generator, scalar witness s, signed-digit vector handed to the widget): honest NAF, plain \
         binary digits, a rewritten NAF of the same integer, encodings of s +- r_jubjub, s +- r_bls, s + 2^253, \
         all-ones, all-minus-ones, the digits of another scalar, digits +-2; plus accumulator-wire substitutions \
         installed at allocation time; oracle: R-SAT satisfied => digits encode exactly the integer s with the \
         three leading digits zero, s < r_jubjub and the returned point = [s]G (native arithmetic); an encoding of \
         the integer s with s canonical => satisfied; component_mul_generator must return Err for non-canonical \
         scalars; distinct = fingerprint of (scalar class, digit class, generator)",
    );
    let lab = Lab { ev: &ev, id: "C14", seed };
    let n = tier.pick(240u64, 3000u64);
    let rj_order = U320::from_scalar(&rj::subgroup_order());
    let r_bls = U320::r();
    par_cases(n, threads(), |ci| {
        let mut rng = case_rng(seed, "C14", ci);
        let one = BlsScalar::one();
        let rjs = rj::subgroup_order();
        let (sname, s) = match ci % 10 {
            0 => ("0", BlsScalar::zero()),
            1 => ("1", one),
            2 => ("r_j-1", rjs - one),
            3 => ("r_j", rjs),
            4 => ("r_j+1", rjs + one),
            5 => ("2^252-1", pow2(252) - one),
            6 => ("2^252", pow2(252)),
            7 => ("canonical-random", BlsScalar::from(JubJubScalar::from_bytes_wide(&{
                let mut b = [0u8; 64];
                rng.fill_bytes(&mut b);
                b
            }))),
            8 => ("small", BlsScalar::from(rng.next_u64())),
            _ => ("random-bls", rand_scalar(&mut rng)),
        };
        let us = U320::from_scalar(&s);
        let canonical = us.lt(&rj_order);
        let (gname, g) = match (ci / 10) % 3 {
            0 => ("GENERATOR", GENERATOR_EXTENDED),
            1 => ("GENERATOR_NUMS", GENERATOR_NUMS_EXTENDED),
            _ => ("random-subgroup", GENERATOR_EXTENDED * JubJubScalar::from(2 + rng.next_u64())),
        };
        ev.set_insert("scalars", sname);
        ev.set_insert("generators", gname);
        // ---- the public entry point -------------------------------------------------
        {
            let prog = Arc::new(Program { ops: vec![Op::Witness(0), Op::MulGenerator(2, g), Op::PointCoords(1)], n_scalar_inputs: 1, n_point_inputs: 0, n_digit_inputs: 0 });
            let (eu, ev_) = rj::affine(&rj::mul_scalar(&g, &s));
            let c = Case { component: "component_mul_generator".into(), prog, inputs: Inputs { scalars: vec![s], points: vec![], digits: vec![] }, op: 1, returned: vec![3, 4], relation: canonical, expected: vec![eu, ev_], note: format!("s={sname},g={gname}") };
            match build_forged(&c.prog, &c.inputs, None) {
                Err(Fail::Err(_)) if !canonical => ev.bucket("entry.err-for-non-canonical"),
                Err(Fail::Err(e)) => ev.violation("C14:component_mul_generator:refuses-canonical-scalar", json!({"s": hx(&s), "error": format!("{e:?}")})),
                Err(Fail::Panic(p)) => ev.violation(&format!("C14:component_mul_generator:panic:{}", panic_site(&p)), json!({"s": hx(&s), "panic": p})),
                Ok(_) if !canonical => ev.violation("C14:component_mul_generator:accepts-non-canonical-scalar-on-host", json!({"s": hx(&s), "class": sname})),
                Ok(_) => {
                    let c = if ci % 2 == 1 { super::gadget::in_context(c, &mut rng, false, &ev) } else { c };
                    if let Some(h) = lab.honest(&c) {
                        for (name, forge) in substitutions(&h, &mut rng, 2, tier.pick(14, 40)) {
                            lab.adversary(&c, &h, &name, &forge);
                        }
                        if ci % tier.pick(40, 10) == 0 {
                            lab.confirm(&c, &h, None);
                        }
                    }
                }
            }
        }
        // ---- the widget with chosen digits --------------------------------------------
        let mut vectors: Vec<(String, [i8; 256])> = Vec::new();
        if let Some(d) = naf_digits(&us) {
            vectors.push(("naf(s)".into(), d));
            // rewrite ..., 1, -1, ... <-> ..., 0, 1, ... (same integer) at the first opportunity
            let mut d2 = d;
            for i in 0..255 {
                if d2[i] == 1 && d2[i + 1] == 0 && i + 2 < 256 {
                    // 1*2^i = 2^(i+1) - 2^i
                    d2[i] = -1;
                    d2[i + 1] = 1;
                    vectors.push(("rewritten(s)".into(), d2));
                    break;
                }
            }
        }
        if let Some(d) = binary_digits(&us) {
            vectors.push(("binary(s)".into(), d));
        }
        for (name, x) in [("s+r_j", Some(us.add(&rj_order))), ("s-r_j", us.checked_sub(&rj_order)), ("s+r_bls", Some(us.add(&r_bls))), ("s+2^253", Some(us.add(&U320::pow2(253)))), ("s+8r_j", Some((0..8).fold(us, |a, _| a.add(&rj_order))))] {
            if let Some(x) = x {
                if let Some(d) = naf_digits(&x) {
                    vectors.push((format!("naf({name})"), d));
                }
                if let Some(d) = binary_digits(&x) {
                    vectors.push((format!("binary({name})"), d));
                }
            }
        }
        // negative encodings: r_bls - s as negative digits (value -(r_bls - s) == s mod r_bls)
        if let Some(x) = r_bls.checked_sub(&us) {
            if let Some(mut d) = binary_digits(&x) {
                for di in d.iter_mut() {
                    *di = -*di;
                }
                vectors.push(("minus-binary(r_bls-s)".into(), d));
            }
        }
        if let Some(x) = rj_order.checked_sub(&us) {
            if let Some(mut d) = naf_digits(&x) {
                for di in d.iter_mut() {
                    *di = -*di;
                }
                vectors.push(("minus-naf(r_j-s)".into(), d));
            }
        }
        // neighbours of s: s + 1, s - 1 as NAF, and the honest NAF with its
        // least significant digit moved by one
        for (name, x) in [("s+1", Some(us.add(&U320::from_u64(1)))), ("s-1", us.checked_sub(&U320::from_u64(1)))] {
            if let Some(d) = x.and_then(|x| naf_digits(&x)) {
                vectors.push((format!("naf({name})"), d));
            }
        }
        if let Some(mut d) = naf_digits(&us) {
            d[0] = if d[0] == 0 { 1 } else { 0 };
            vectors.push(("lowest-digit-moved(other)".into(), d));
            let mut d2 = naf_digits(&us).unwrap();
            if d2[0] == 0 {
                d2[0] = -1;
                vectors.push(("lowest-digit-minus-one(other)".into(), d2));
            }
        }
        vectors.push(("all-ones".into(), [1i8; 256]));
        vectors.push(("all-minus-ones".into(), [-1i8; 256]));
        vectors.push(("all-zero".into(), [0i8; 256]));
        let other = U320::from_scalar(&BlsScalar::from(JubJubScalar::from(rng.next_u64())));
        vectors.push(("naf(other-scalar)".into(), naf_digits(&other).unwrap()));
        let mut d = naf_digits(&us).unwrap_or([0i8; 256]);
        d[rng.next_u32() as usize % 250] = 2;
        vectors.push(("digit=2".into(), d));
        let mut d = naf_digits(&us).unwrap_or([0i8; 256]);
        d[255 - (rng.next_u32() as usize % 3)] = 1;
        vectors.push(("leading-digit-set".into(), d));

        // half of the widget cases run after an earlier call on the scalar
        // witness that the scalar passes (a range check or a decomposition of
        // a width it fits): the widget must be exactly as strict as alone
        let mut ops = vec![Op::Witness(0)];
        let mut result_preg = 1usize;
        if ci % 2 == 1 {
            let bl = us.bits();
            let mut pre: Vec<(&str, Op)> = Vec::new();
            for w in [251usize, 252, 253, 254] {
                if bl <= w {
                    pre.push(("range_bits", Op::RangeBits(w, 2)));
                    pre.push(("range_seam", Op::RangeSeam(w, 2)));
                }
            }
            if bl <= 252 {
                pre.push(("truncate", Op::Truncate(252, 2)));
            }
            pre.push(("range_bits_255", Op::RangeBits(255, 2)));
            if canonical {
                // the same scalar witness already multiplied by another generator
                // (the usual sk*G, sk*G' pattern): the second multiplication must
                // be as strict as the first
                let other = if gname == "GENERATOR" { GENERATOR_NUMS_EXTENDED } else { GENERATOR_EXTENDED };
                pre.push(("mul_generator_same_scalar", Op::MulGenerator(2, other)));
                pre.push(("mul_generator_same_scalar_same_generator", Op::MulGenerator(2, g)));
                pre.push(("mul_generator_same_scalar", Op::MulGenerator(2, other)));
            }
            let (pn, po) = pre[(ci as usize / 2) % pre.len()].clone();
            ev.bucket("widget.in_context");
            ev.set_insert("widget_context_preludes", format!("{pn}:{}", po.tag().split('(').next().unwrap_or("")));
            if matches!(po, Op::MulGenerator(..)) {
                result_preg = 2;
            }
            ops.push(po);
        }
        ops.push(Op::SeamFixedBase(2, g, 0));
        ops.push(Op::PointCoords(result_preg));
        let prog = Arc::new(Program { ops, n_scalar_inputs: 1, n_point_inputs: 0, n_digit_inputs: 1 });
        let layout = match common::build_instance(&prog, &Inputs::default_for(&prog), &[]) {
            Ok((l, _)) => l,
            Err(f) => {
                ev.violation("C14:seam-default-build-failed", json!({"error": f.text()}));
                return;
            }
        };
        let expected_point = rj::affine(&rj::mul_scalar(&g, &s));
        for (dname, digits) in vectors {
            let dclass = dname.split('(').next().unwrap().to_string() + dname.split('(').nth(1).map(|x| if x.starts_with("s)") { "(s)" } else { "(other)" }).unwrap_or("");
            ev.set_insert("digit_classes", &dname);
            let inputs = Inputs { scalars: vec![s], points: vec![], digits: vec![digits] };
            let (pos, neg) = digits_value(&digits);
            let encodes_s = neg == U320::ZERO && pos == us || pos.checked_sub(&neg) == Some(us);
            let leading_zero = digits[255] == 0 && digits[254] == 0 && digits[253] == 0;
            let valid_digits = digits.iter().all(|d| (-1..=1).contains(d));
            let must_hold = encodes_s && leading_zero && canonical && valid_digits;
            let desc = json!({"part": "widget", "s": sname, "digits": dname, "generator": gname, "encodes_s": encodes_s, "canonical": canonical});
            ev.case(&desc, true);
            match build_forged(&prog, &inputs, None) {
                Err(Fail::Err(_)) => {
                    ev.bucket("widget.err");
                    if valid_digits {
                        ev.violation(&format!("C14:widget-refuses-valid-digits:{dclass}"), json!({"case": desc}));
                    }
                }
                Err(Fail::Panic(p)) => ev.violation(&format!("C14:widget-panicked:{}:{dclass}", panic_site(&p)), json!({"case": desc, "panic": p})),
                Ok((snap, regs)) => {
                    let rep = sat::check(&layout, &snap);
                    ev.bucket(if rep.satisfied() { "widget.satisfied" } else { "widget.unsatisfied" });
                    let nr = regs.s.len();
                    let got = (snap.witnesses[regs.s[nr - 2].index()], snap.witnesses[regs.s[nr - 1].index()]);
                    if rep.satisfied() {
                        let mut why = Vec::new();
                        if !canonical {
                            why.push("non-canonical-scalar");
                        }
                        if got != expected_point {
                            why.push("wrong-point");
                        }
                        if !encodes_s {
                            why.push("digits-do-not-encode-s");
                        }
                        if !why.is_empty() {
                            let c = Case { component: "fixed_base_signed_digits".into(), prog: prog.clone(), inputs: inputs.clone(), op: 1, returned: vec![], relation: false, expected: vec![], note: String::new() };
                            let verdict = lab.end_to_end(&c, None);
                            ev.violation(&format!("C14:widget-satisfied:{}:{dclass}:verifier={verdict}", why.join("+")), json!({"case": desc, "s_hex": hx(&s)}));
                        }
                    } else if must_hold {
                        ev.violation(&format!("C14:valid-encoding-unsatisfied:{dclass}"), json!({"case": desc, "violated": rep.violated.iter().take(5).map(|(r, c)| format!("{r}:{}", c.name())).collect::<Vec<_>>()}));
                    }
                    if ci % tier.pick(60, 12) == 0 && (dname == "naf(s)" || dname == "naf(s+r_j)") {
                        let c = Case { component: "fixed_base_signed_digits".into(), prog: prog.clone(), inputs: inputs.clone(), op: 1, returned: vec![], relation: must_hold, expected: vec![], note: String::new() };
                        let h = Honest { layout: layout.clone(), snap, regs, own: 0..0, rows: 0..0 };
                        lab.confirm(&c, &h, None);
                    }
                }
            }
        }
    });
    ev.floor("scalar classes", ev.set_len("scalars") as u64, 10);
    ev.floor("digit vector classes", ev.set_len("digit_classes") as u64, 12);
    ev.floor("widget runs satisfied", ev.bucket_get("widget.satisfied"), tier.pick(150, 1500));
    ev.floor("widget runs unsatisfied", ev.bucket_get("widget.unsatisfied"), tier.pick(1500, 15000));
    ev.floor("entry point refusals for non-canonical scalars", ev.bucket_get("entry.err-for-non-canonical"), 50);
    ev.floor("adversarial accumulator substitutions", ev.bucket_get("adversarial"), tier.pick(1500, 15000));
    ev.floor("end to end", ev.bucket_get("end_to_end"), 5);
    ev.floor("widget cases run after an earlier call on the scalar", ev.bucket_get("widget.in_context"), tier.pick(30, 300));
    ev.floor("near-miss assignments (one sub-identity on one row) refused by the real prover", ev.bucket_get("near_miss.end_to_end"), 20);
    ev.floor("sub-identities covered by near misses", ev.set_len("near_miss_identities") as u64, 5);
    ev.floor("cases run in a context of earlier calls on the operands", ev.bucket_get("context.cases"), 10);
    ev.floor("copy-constraint-only forgeries on a consumer of the returned witness, through the real prover", ev.bucket_get("copybreak.end_to_end"), 2);
    ev.finish()
}
