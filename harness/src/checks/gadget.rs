//! Gadget lab shared by C08–C14.
//!
//! A case is a program whose last op (the component under test) acts on
//! pinned input witnesses. For the honest run and for every adversarial
//! assignment of the component's *own* witnesses (installed through the
//! allocation-time override hook, so everything the gadget derives on the
//! host is re-propagated), R-SAT decides satisfiability against the layout
//! and the oracle is:
//!
//!   honest:       relation(inputs) <=> satisfied, and returned = f(inputs)
//!   adversarial:  satisfied => relation(inputs) and returned = f(inputs)
//!
//! Any adversarial assignment that comes out satisfied with a wrong output
//! is taken to the real prover and verifier before it is reported.

use std::collections::BTreeMap;
use std::sync::Arc;

use dusk_bls12_381::BlsScalar;
use dusk_plonk::prelude::PlonkVersion;
use dusk_plonk::verif::Snapshot;
use serde_json::json;

use super::common::{self, Fail};
use crate::gen::program::{Inputs, Op, Program, Reg, Regs};
use crate::mon::evidence::Ev;
use crate::mon::panic::panic_site;
use crate::mon::rng::case_rng;
use crate::refimpl::sat;
use crate::util::hx;

pub type Forge = BTreeMap<usize, BlsScalar>;

pub struct Case {
    pub component: String,
    pub prog: Arc<Program>,
    pub inputs: Inputs,
    /// index of the op under test (its witnesses may be forged)
    pub op: usize,
    /// registers holding the values the component returns
    pub returned: Vec<Reg>,
    /// does the documented relation hold for these inputs?
    pub relation: bool,
    /// expected returned values (when the relation holds)
    pub expected: Vec<BlsScalar>,
    pub note: String,
}

pub struct Honest {
    pub layout: Snapshot,
    pub snap: Snapshot,
    pub regs: Regs,
    /// witness indices allocated by the op under test
    pub own: std::ops::Range<usize>,
    /// rows emitted by the op under test
    pub rows: std::ops::Range<usize>,
}

pub fn build_forged(prog: &Arc<Program>, inputs: &Inputs, forge: Option<&Forge>) -> Result<(Snapshot, Regs), Fail> {
    dusk_plonk::verif::set_forged_witnesses(forge.cloned());
    let r = common::build_instance(prog, inputs, &[]);
    dusk_plonk::verif::set_forged_witnesses(None);
    r
}

pub struct Lab<'a> {
    pub ev: &'a Ev,
    pub id: &'static str,
    pub seed: u64,
}

impl Lab<'_> {
    /// Honest run. Returns the data adversaries need, or None when the
    /// component refused to build (allowed only if the relation is false).
    pub fn honest(&self, c: &Case) -> Option<Honest> {
        let ev = self.ev;
        let comp = c.component.split(['<', '(']).next().unwrap().to_string();
        let layout = match common::build_instance(&c.prog, &Inputs::default_for(&c.prog), &[]) {
            Ok((s, _)) => s,
            Err(f) => {
                ev.violation(&format!("{}:{}:default-instance-fails", self.id, comp), json!({"component": c.component, "error": f.text()}));
                return None;
            }
        };
        let built = build_forged(&c.prog, &c.inputs, None);
        let desc = json!({"component": c.component, "kind": "honest", "relation": c.relation, "note": c.note,
            "inputs": crate::util::hxs(&c.inputs.scalars)});
        ev.case(&desc, true);
        ev.set_insert("components", &comp);
        ev.bucket(&format!("honest.{}", if c.relation { "relation-holds" } else { "relation-fails" }));
        let (snap, regs) = match built {
            Ok(x) => x,
            Err(Fail::Err(e)) => {
                if c.relation {
                    ev.violation(&format!("{}:{}:honest-build-refused-although-relation-holds", self.id, comp), json!({"case": desc, "error": format!("{e:?}")}));
                } else {
                    ev.bucket("honest.refused-by-host-guard");
                }
                return None;
            }
            Err(Fail::Panic(p)) => {
                ev.violation(&format!("{}:{}:panic:{}", self.id, comp, panic_site(&p)), json!({"case": desc, "panic": p}));
                return None;
            }
        };
        if sat::canonical(&snap) != sat::canonical(&layout) {
            ev.violation(&format!("{}:{}:shape-differs-from-default-instance", self.id, comp), json!({"case": desc}));
            return None;
        }
        let rep = sat::check(&layout, &snap);
        let own = regs.marks[c.op].3..regs.marks.get(c.op + 1).map(|m| m.3).unwrap_or(snap.witnesses.len());
        let rows = regs.marks[c.op].2..regs.marks.get(c.op + 1).map(|m| m.2).unwrap_or(snap.gates.len());
        if c.relation {
            if !rep.satisfied() {
                ev.violation(
                    &format!("{}:{}:honest-assignment-unsatisfied-although-relation-holds", self.id, comp),
                    json!({"case": desc, "violated": rep.violated.iter().take(6).map(|(r, k)| format!("{r}:{}", k.name())).collect::<Vec<_>>()}),
                );
            } else {
                let got: Vec<BlsScalar> = c.returned.iter().map(|r| snap.witnesses[regs.s[*r].index()]).collect();
                if got != c.expected {
                    ev.violation(
                        &format!("{}:{}:returned-value-differs-from-specification", self.id, comp),
                        json!({"case": desc, "got": crate::util::hxs(&got), "expected": crate::util::hxs(&c.expected)}),
                    );
                }
            }
        } else if rep.satisfied() {
            let verdict = self.end_to_end(c, None);
            ev.violation(
                &format!("{}:{}:satisfied-although-relation-fails:verifier={}", self.id, comp, verdict),
                json!({"case": desc}),
            );
        }
        if c.relation && rep.satisfied() && !c.returned.is_empty() {
            self.consumer_copy_break(c, &regs);
        }
        Some(Honest { layout, snap, regs, own, rows })
    }

    /// Cell-level adversary on what the component returns. The program gets a
    /// consumer row `assert_equal(returned, claimed)` with `claimed` a fresh
    /// input. Honest: claimed = the specified value. Forged: claimed = that
    /// value + 1 and the consumer row's first cell re-wired (in the proved
    /// instance only) to the `claimed` witness: every row identity holds, only
    /// the copy constraint tying the consumer cell to the returned witness is
    /// broken. The real prover must refuse - unless the compiled permutation
    /// has lost the link between the component's rows and its result. A few
    /// per component and run (each costs a compile and a prove).
    fn consumer_copy_break(&self, c: &Case, regs: &Regs) {
        use crate::gen::program::Tamper;
        let ev = self.ev;
        let comp = c.component.split(['<', '(']).next().unwrap().to_string();
        let key = format!("copybreak.{comp}");
        if ev.bucket_get(&key) >= self.near_miss_cap() / 2 {
            return;
        }
        ev.bucket(&key);
        let ri = (ev.bucket_get(&key) as usize) % c.returned.len();
        let ret = c.returned[ri];
        let new_reg = regs.s.len();
        let mut ops = c.prog.ops.clone();
        // (the input vector of a case may be longer than its program declares)
        let claim_input = c.inputs.scalars.len().max(c.prog.n_scalar_inputs);
        ops.push(Op::Witness(claim_input));
        ops.push(Op::AssertEq(ret, new_reg));
        let prog = Arc::new(Program { ops, n_scalar_inputs: claim_input + 1, n_point_inputs: c.prog.n_point_inputs, n_digit_inputs: c.prog.n_digit_inputs });
        let mut honest_in = c.inputs.clone();
        honest_in.scalars.resize(claim_input, BlsScalar::zero());
        honest_in.scalars.push(c.expected[ri]);
        let mut forged_in = c.inputs.clone();
        forged_in.scalars.resize(claim_input, BlsScalar::zero());
        forged_in.scalars.push(c.expected[ri] + BlsScalar::one());
        let Ok((hsnap, hregs)) = common::build_instance(&prog, &honest_in, &[]) else { return };
        let Ok((layout, _)) = common::build_instance(&prog, &Inputs::default_for(&prog), &[]) else { return };
        if !sat::check(&layout, &hsnap).satisfied() {
            ev.violation(&format!("{}:{}:returned-witness-does-not-equal-the-specified-value-in-a-consumer-row", self.id, comp), json!({"component": c.component, "note": c.note}));
            return;
        }
        let consumer_row = hsnap.gates.len() - 1;
        let claimed = hregs.s[new_reg].index();
        let tamper = vec![Tamper::SetWire { row: consumer_row, wire: 0, witness: claimed }];
        let Ok((fsnap, _)) = common::build_instance(&prog, &forged_in, &tamper) else { return };
        let rep = sat::check(&layout, &fsnap);
        if rep.satisfied() {
            // the reference model itself sees no violation: not the assignment intended
            ev.bucket("copybreak.not-a-violation-for-the-model");
            return;
        }
        let pp = crate::util::pp(common::min_degree(layout.gates.len()));
        let Ok(compiled) = common::compile(&pp, b"gadget-copy-break", &prog) else { return };
        let mut rng = case_rng(self.seed, "gadget.copybreak", layout.gates.len() as u64);
        let proved = common::prove(&compiled.prover, &prog, &forged_in, &tamper, &mut rng, PlonkVersion::V3);
        ev.bucket("copybreak.end_to_end");
        let verdict = match proved.result {
            Ok((proof, pi)) => match common::verify(&compiled.verifier, &proof, &pi, PlonkVersion::V3) {
                Ok(()) => "ACCEPTS".to_string(),
                Err(_) => "rejects".to_string(),
            },
            Err(Fail::Err(dusk_plonk::prelude::Error::CircuitUnsatisfied)) => "prover-refuses".to_string(),
            Err(f) => f.text(),
        };
        if verdict != "prover-refuses" && verdict != "rejects" {
            ev.violation(
                &format!("{}:{}:returned-witness-not-bound-to-its-consumer:copy-constraint-only:real-prover-and-verifier={}", self.id, comp, verdict),
                json!({"component": c.component, "note": c.note, "returned_register": ret, "violated": rep.violated.iter().take(4).map(|(r, k)| format!("{r}:{}", k.name())).collect::<Vec<_>>()}),
            );
        }
    }

    /// One adversarial assignment.
    pub fn adversary(&self, c: &Case, h: &Honest, name: &str, forge: &Forge) {
        let ev = self.ev;
        let comp = c.component.split(['<', '(']).next().unwrap().to_string();
        // only the component's own witnesses may be forged
        // (a component that allocated fewer witnesses than its adversaries
        // assume - e.g. because the tree under test changed its layout - is
        // not attacked with a forge that would hit somebody else's witnesses)
        if !forge.keys().all(|k| h.own.contains(k)) {
            ev.bucket("adversarial.skipped-forge-outside-component");
            return;
        }
        let differs = forge.iter().any(|(k, v)| h.snap.witnesses[*k] != *v);
        let built = build_forged(&c.prog, &c.inputs, Some(forge));
        ev.case_fp(&format!("{}|{}|{}|{:?}", c.component, name, c.note, forge.iter().map(|(k, v)| (k, hx(v))).collect::<Vec<_>>()), differs);
        ev.bucket("adversarial");
        ev.bucket(&format!("adversary.{}", name.split(':').next().unwrap()));
        ev.set_insert("adversaries", name.split(':').next().unwrap());
        let (snap, regs) = match built {
            Ok(x) => x,
            Err(Fail::Err(_)) => {
                ev.bucket("adversarial.refused-by-host-guard");
                return;
            }
            Err(Fail::Panic(p)) => {
                ev.violation(&format!("{}:{}:panic-under-forged-witness:{}", self.id, comp, panic_site(&p)), json!({"component": c.component, "adversary": name, "panic": p}));
                return;
            }
        };
        if sat::canonical(&snap) != sat::canonical(&h.layout) {
            ev.violation(&format!("{}:{}:shape-changes-under-forged-witness", self.id, comp), json!({"component": c.component, "adversary": name}));
            return;
        }
        let rep = sat::check(&h.layout, &snap);
        if !rep.satisfied() {
            ev.bucket("adversarial.unsatisfied");
            // near misses (exactly one sub-identity violated on exactly one
            // row): a few per (component, adversary kind, sub-identity) are
            // taken through the real prover and verifier, which must refuse
            // what the gate identities reject - this is where a weakened
            // widget (a link dropped consistently in quotient, lineariser and
            // verifier) becomes observable from the component's side
            if rep.violated.len() == 1 {
                let kind = name.split(':').next().unwrap();
                let key = format!("nearmiss.{}|{}|{}", comp, kind, rep.violated[0].1.name());
                if ev.bucket_get(&key) < self.near_miss_cap() {
                    ev.bucket(&key);
                    ev.bucket("near_miss.end_to_end");
                    ev.set_insert("near_miss_identities", rep.violated[0].1.name());
                    let verdict = self.end_to_end(c, Some(forge));
                    if verdict != "prover-refuses" && verdict != "rejects" {
                        ev.violation(
                            &format!("{}:{}:assignment-violating-{}-only:{}:real-prover-and-verifier={}", self.id, c.component, rep.violated[0].1.name(), kind, verdict),
                            json!({"component": c.component, "adversary": name, "note": c.note, "row": rep.violated[0].0, "inputs": crate::util::hxs(&c.inputs.scalars),
                                "forged": forge.iter().map(|(k, v)| (k.to_string(), hx(v))).collect::<BTreeMap<_, _>>()}),
                        );
                    }
                }
            }
            return;
        }
        ev.bucket("adversarial.satisfied");
        let got: Vec<BlsScalar> = c.returned.iter().map(|r| snap.witnesses[regs.s[*r].index()]).collect();
        let bad_relation = !c.relation;
        let bad_output = c.relation && got != c.expected;
        if bad_relation || bad_output {
            let verdict = self.end_to_end(c, Some(forge));
            let what = if bad_relation { "satisfied-although-relation-fails" } else { "second-satisfying-output" };
            ev.violation(
                &format!("{}:{}:{}:{}:verifier={}", self.id, c.component, what, name.split(':').next().unwrap(), verdict),
                json!({"component": c.component, "adversary": name, "note": c.note, "inputs": crate::util::hxs(&c.inputs.scalars),
                    "returned": crate::util::hxs(&got), "expected": crate::util::hxs(&c.expected),
                    "forged": forge.iter().map(|(k, v)| (k.to_string(), hx(v))).collect::<BTreeMap<_, _>>()}),
            );
        } else {
            // a different internal assignment with the same observable result
            ev.bucket("adversarial.satisfied-same-output");
        }
    }

    fn near_miss_cap(&self) -> u64 {
        match self.ev.tier {
            crate::mon::evidence::Tier::Quick => 6,
            crate::mon::evidence::Tier::Thorough => 40,
        }
    }

    /// compile, prove (with the forge installed) and verify; returns
    /// "ACCEPTS" / "rejects" / "prover-refuses" / error text
    pub fn end_to_end(&self, c: &Case, forge: Option<&Forge>) -> String {
        let rows = match common::build_instance(&c.prog, &Inputs::default_for(&c.prog), &[]) {
            Ok((s, _)) => s.gates.len(),
            Err(_) => return "no-layout".into(),
        };
        let pp = crate::util::pp(common::min_degree(rows));
        let compiled = match common::compile(&pp, b"gadget-lab", &c.prog) {
            Ok(x) => x,
            Err(f) => return format!("compile-failed({})", f.text()),
        };
        let mut rng = case_rng(self.seed, "gadget.e2e", rows as u64);
        dusk_plonk::verif::set_forged_witnesses(forge.cloned());
        let proved = common::prove(&compiled.prover, &c.prog, &c.inputs, &[], &mut rng, PlonkVersion::V3);
        dusk_plonk::verif::set_forged_witnesses(None);
        self.ev.bucket("end_to_end");
        match proved.result {
            Ok((proof, pi)) => match common::verify(&compiled.verifier, &proof, &pi, PlonkVersion::V3) {
                Ok(()) => "ACCEPTS".into(),
                Err(_) => "rejects".into(),
            },
            Err(Fail::Err(dusk_plonk::prelude::Error::CircuitUnsatisfied)) => "prover-refuses".into(),
            Err(f) => f.text(),
        }
    }

    /// Sampled end-to-end confirmation that R-SAT and the real prover agree
    /// on this (possibly forged) assignment.
    pub fn confirm(&self, c: &Case, h: &Honest, forge: Option<&Forge>) {
        let built = build_forged(&c.prog, &c.inputs, forge);
        let Ok((snap, _)) = built else { return };
        let sat = sat::check(&h.layout, &snap).satisfied();
        let v = self.end_to_end(c, forge);
        let agree = (sat && v == "ACCEPTS") || (!sat && v == "prover-refuses");
        self.ev.bucket(if sat { "confirmed.satisfied-proves" } else { "confirmed.unsatisfied-refused" });
        if !agree {
            self.ev.violation(
                &format!("{}:{}:rsat-and-real-prover-disagree:rsat={}:real={}", self.id, c.component.split(['<', '(']).next().unwrap(), sat, v),
                json!({"component": c.component, "note": c.note, "inputs": crate::util::hxs(&c.inputs.scalars)}),
            );
        }
    }
}

/// Generic adversary: substitute each of the component's own witnesses in
/// turn by a few alternative values (host-side re-propagation is automatic).
pub fn substitutions(h: &Honest, rng: &mut impl rand_core::RngCore, per_witness: usize, max_witnesses: usize) -> Vec<(String, Forge)> {
    let mut out = Vec::new();
    let own: Vec<usize> = h.own.clone().collect();
    let pick: Vec<usize> = if own.len() <= max_witnesses {
        own
    } else {
        // always the first and last few, plus a random sample
        let mut p: Vec<usize> = own.iter().take(3).chain(own.iter().rev().take(4)).copied().collect();
        while p.len() < max_witnesses {
            p.push(own[rng.next_u32() as usize % own.len()]);
        }
        p.sort();
        p.dedup();
        p
    };
    for w in pick {
        let v = h.snap.witnesses[w];
        let mut alts = vec![
            ("+1", v + BlsScalar::one()),
            ("-1", v - BlsScalar::one()),
            ("0", BlsScalar::zero()),
            ("1", BlsScalar::one()),
            ("neg", -v),
            ("*2", v + v),
            ("+4", v + BlsScalar::from(4u64)),
            ("pool", crate::util::pool_scalar(rng)),
            ("random", crate::util::rand_scalar(rng)),
        ];
        alts.retain(|(_, x)| *x != v);
        for _ in 0..per_witness.min(alts.len()) {
            let (n, x) = alts.remove(rng.next_u32() as usize % alts.len());
            let mut f = Forge::new();
            f.insert(w, x);
            out.push((format!("substitute:{n}@w{}", w - h.own.start), f));
        }
    }
    out
}

// ---------------------------------------------------------------------------
// Context: the component under test preceded by other calls on its operands.
//
// A component's rows, returned values and exactness must not depend on what
// the composer was asked before (a cache keyed on too little, a "this witness
// was already range-checked" shortcut, a memoised sub-result). `in_context`
// rewrites a case so that the op under test comes right after a prelude of
// always-satisfiable calls on the same operands - siblings with another
// width, the other logic operation, range checks the operand passes,
// truncations, duplicates; the relation and the expected values of the case
// are unchanged, and every adversary of the check then runs in that context.
// ---------------------------------------------------------------------------

fn bitlen(v: &BlsScalar) -> usize {
    let u = crate::refimpl::bigint::U320::from_scalar(v);
    (0..256).rev().find(|i| u.bit(*i) == 1).map(|i| i + 1).unwrap_or(0)
}

/// Candidate preludes for the op under test; all are satisfiable for the
/// operand values of this case.
fn preludes(c: &Case, snap: &Snapshot, regs: &Regs, rng: &mut impl rand_core::RngCore, points_are_subgroup: bool) -> Vec<(String, Vec<Op>)> {
    let op = &c.prog.ops[c.op];
    let (sregs, pregs) = op.operands();
    let mut out: Vec<(String, Vec<Op>)> = Vec::new();
    let val = |r: Reg| snap.witnesses[regs.s[r].index()];
    for &r in sregs.iter().take(2) {
        let bl = bitlen(&val(r));
        for w in [252usize, 254, 255, 256, bl, bl + 1, ((bl + 1) / 2) * 2] {
            if w >= bl && w <= 256 {
                out.push((format!("range_bits<{w}>(operand)"), vec![Op::RangeBits(w, r)]));
            }
        }
        for n in [1usize, 8, 64, 200, 254] {
            out.push((format!("truncate<{n}>(operand)"), vec![Op::Truncate(n, r)]));
        }
        out.push(("xor<8>(operand,operand)".into(), vec![Op::LogicXor(8, r, r)]));
        if bl <= 200 {
            out.push(("decomposition<200>(operand)".into(), vec![Op::Decomposition(200, r)]));
        }
    }
    match op {
        Op::LogicAnd(p, a, b) | Op::LogicXor(p, a, b) => {
            let is_xor = matches!(op, Op::LogicXor(..));
            for q in [0usize, 1, p.saturating_sub(1), p + 1, 2 * p, 64, 127] {
                if q != *p && q <= 127 {
                    out.push((format!("same-operation<{q}>"), vec![if is_xor { Op::LogicXor(q, *a, *b) } else { Op::LogicAnd(q, *a, *b) }]));
                    out.push((format!("same-operation<{q}>-swapped"), vec![if is_xor { Op::LogicXor(q, *b, *a) } else { Op::LogicAnd(q, *b, *a) }]));
                }
            }
            out.push(("other-operation-same-width".into(), vec![if is_xor { Op::LogicAnd(*p, *a, *b) } else { Op::LogicXor(*p, *a, *b) }]));
        }
        Op::Truncate(n, a) => {
            for q in [0usize, 1, n.saturating_sub(1), n + 1, 254] {
                if q != *n && q <= 254 {
                    out.push((format!("truncate<{q}>"), vec![Op::Truncate(q, *a)]));
                }
            }
        }
        Op::Decomposition(n, a) => {
            let bl = bitlen(&val(*a));
            for q in [bl.max(1), n + 1, 255, 256] {
                if q != *n && q >= bl && (1..=256).contains(&q) {
                    out.push((format!("decomposition<{q}>"), vec![Op::Decomposition(q, *a)]));
                }
            }
        }
        Op::MulGenerator(s, _) | Op::SeamFixedBase(s, _, _) | Op::SeamCanonicalJubjub(s) => {
            let bl = bitlen(&val(*s));
            for w in [251usize, 252, 253] {
                if w >= bl {
                    out.push((format!("range_bits<{w}>(scalar)"), vec![Op::RangeBits(w, *s)]));
                    out.push((format!("range_seam<{w}>(scalar)"), vec![Op::RangeSeam(w, *s)]));
                }
            }
            if bl <= 252 {
                out.push(("decomposition<252>(scalar)".into(), vec![Op::Decomposition(252, *s)]));
            }
        }
        _ => {}
    }
    // the same call with its first scalar operand replaced by a circuit
    // constant (ZERO is what every witness holds in the default instance the
    // keys are compiled from, so anything keyed on witness *values* collides
    // at compile time and not at proving time)
    if let Some(&first) = sregs.first() {
        if first >= 2 {
            let sibling = |c: Reg| op.map_regs(&|r| if r == first { c } else { r }, &|p| p);
            let ok = match op {
                Op::LogicAnd(..) | Op::LogicXor(..) | Op::Truncate(..) | Op::SelectPoint(..) | Op::SelectIdentity(..) | Op::SelectOne(..) | Op::SelectZero(..) => true,
                Op::MulPoint(..) => points_are_subgroup,
                Op::MulGenerator(..) => true,
                Op::Decomposition(n, _) | Op::RangeBits(n, _) | Op::RangeSeam(n, _) => *n >= 1,
                _ => false,
            };
            if ok {
                out.push(("same-call-on-constant-ZERO".into(), vec![sibling(0)]));
                out.push(("same-call-on-constant-ONE".into(), vec![sibling(1)]));
            }
        }
    }
    if points_are_subgroup {
        if let Some(&a) = pregs.first() {
            let b = *pregs.get(1).unwrap_or(&a);
            out.push(("add_point(operands)".into(), vec![Op::AddPoint(a, b)]));
            out.push(("add_point(swapped)".into(), vec![Op::AddPoint(b, a)]));
            out.push(("sub_point(operands)".into(), vec![Op::SubPoint(a, b)]));
            out.push(("neg_point(operand)".into(), vec![Op::NegPoint(a)]));
            out.push(("select_identity(ONE,operand)".into(), vec![Op::SelectIdentity(1, a)]));
            out.push(("select_point(ZERO,operands)".into(), vec![Op::SelectPoint(0, a, b)]));
            out.push(("assert_torsion_free(operand)".into(), vec![Op::AssertTorsionFree(a)]));
        }
    }
    // an exact duplicate of the call (satisfiable whenever the case itself is)
    if c.relation {
        out.push(("duplicate-call".into(), vec![op.clone()]));
    }
    let _ = rng;
    out
}

/// The case with a prelude inserted right before the op under test, or the
/// case unchanged when no prelude applies / the rewritten program does not
/// build. `points_are_subgroup` allows curve preludes on the point operands.
pub fn in_context(c: Case, rng: &mut impl rand_core::RngCore, points_are_subgroup: bool, ev: &Ev) -> Case {
    let Ok((snap, regs)) = build_forged(&c.prog, &c.inputs, None) else { return c };
    let cands = preludes(&c, &snap, &regs, rng, points_are_subgroup);
    if cands.is_empty() {
        return c;
    }
    let (pname, prelude) = cands[rng.next_u32() as usize % cands.len()].clone();
    let (s_before, p_before) = (regs.marks[c.op].0, regs.marks[c.op].1);
    // trial run of [..op] ++ prelude to learn how many registers it pushes
    let mut ops: Vec<Op> = c.prog.ops[..c.op].to_vec();
    ops.extend(prelude.iter().cloned());
    let trial = Arc::new(Program { ops: ops.clone(), n_scalar_inputs: c.prog.n_scalar_inputs, n_point_inputs: c.prog.n_point_inputs, n_digit_inputs: c.prog.n_digit_inputs });
    let Ok((_, tregs)) = build_forged(&trial, &c.inputs, None) else {
        ev.bucket("context.prelude-refused");
        return c;
    };
    let (ds, dp) = (tregs.s.len() - s_before, tregs.p.len() - p_before);
    let fs = move |r: Reg| if r >= s_before { r + ds } else { r };
    let fp = move |r: usize| if r >= p_before { r + dp } else { r };
    ops.push(c.prog.ops[c.op].clone());
    for o in &c.prog.ops[c.op + 1..] {
        ops.push(o.map_regs(&fs, &fp));
    }
    let prog = Arc::new(Program { ops, n_scalar_inputs: c.prog.n_scalar_inputs, n_point_inputs: c.prog.n_point_inputs, n_digit_inputs: c.prog.n_digit_inputs });
    // the default instance must build too (it is what gets compiled)
    if common::build_instance(&prog, &Inputs::default_for(&prog), &[]).is_err() {
        ev.bucket("context.default-instance-refused");
        return c;
    }
    ev.bucket("context.cases");
    ev.set_insert("context_preludes", pname.split(['<', '(']).next().unwrap_or(""));
    Case {
        component: c.component,
        prog,
        inputs: c.inputs,
        op: c.op + prelude.len(),
        returned: c.returned.iter().map(|r| fs(*r)).collect(),
        relation: c.relation,
        expected: c.expected,
        note: format!("{} ctx={pname}", c.note),
    }
}
