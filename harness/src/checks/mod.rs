use crate::mon::evidence::Tier;

pub mod common;

#[cfg(feature = "plonk-std")]
pub mod c01;
#[cfg(feature = "plonk-std")]
pub mod c02;
#[cfg(feature = "plonk-std")]
pub mod c03;
#[cfg(feature = "plonk-std")]
pub mod c04;
#[cfg(feature = "plonk-std")]
pub mod c05;
#[cfg(feature = "plonk-std")]
pub mod c06;
#[cfg(feature = "plonk-std")]
pub mod c07;
#[cfg(feature = "plonk-std")]
pub mod c08;
#[cfg(feature = "plonk-std")]
pub mod c09;
#[cfg(feature = "plonk-std")]
pub mod c10;
#[cfg(feature = "plonk-std")]
pub mod c11;
#[cfg(feature = "plonk-std")]
pub mod c12;
#[cfg(feature = "plonk-std")]
pub mod c13;
#[cfg(feature = "plonk-std")]
pub mod c14;
#[cfg(feature = "plonk-std")]
pub mod gadget;
#[cfg(feature = "plonk-std")]
pub mod c15;
#[cfg(feature = "plonk-std")]
pub mod c16;
#[cfg(feature = "plonk-std")]
pub mod c17;
pub mod c18;
pub mod c19;
#[cfg(feature = "plonk-std")]
pub mod c20;

pub fn dispatch(id: &str, tier: Tier, seed: u64, sub: Option<&str>) -> i32 {
    if id == "C18" {
        if let Some(s) = sub {
            if s.starts_with("child:") {
                return c18::child(s);
            }
            #[cfg(feature = "plonk-std")]
            if s == "sanitizer" {
                return c18::sanitizer_workload(seed);
            }
        }
        return c18::run(tier, seed);
    }
    if id == "C19" {
        if sub == Some("sanitizer") {
            return c19::sanitizer_workload(seed);
        }
        if sub == Some("digest") {
            return c19::digest_workload(seed);
        }
        if sub == Some("miri") {
            return c19::miri_workload(seed);
        }
        return c19::run(tier, seed);
    }
    #[cfg(feature = "plonk-std")]
    if id == "C17" {
        if let Some(dir) = sub.and_then(|s| s.strip_prefix("corpus:")) {
            return c17::write_corpus(dir);
        }
    }
    #[cfg(feature = "plonk-std")]
    {
        match id {
            "C01" => return c01::run(tier, seed),
            "C02" => return c02::run(tier, seed),
            "C03" => return c03::run(tier, seed),
            "C04" => return c04::run(tier, seed),
            "C05" => return c05::run(tier, seed),
            "C06" => return c06::run(tier, seed),
            "C07" => return c07::run(tier, seed),
            "C08" => return c08::run(tier, seed),
            "C09" => return c09::run(tier, seed),
            "C10" => return c10::run(tier, seed),
            "C11" => return c11::run(tier, seed),
            "C12" => return c12::run(tier, seed),
            "C13" => return c13::run(tier, seed),
            "C14" => return c14::run(tier, seed),
            "C15" => return c15::run(tier, seed),
            "C16" => return c16::run(tier, seed),
            "C17" => return c17::run(tier, seed),
            "C20" => return c20::run(tier, seed),
            _ => {}
        }
    }
    eprintln!("unknown check {id}");
    2
}
