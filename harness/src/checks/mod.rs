use crate::mon::evidence::Tier;

pub mod common;
pub mod c01;
pub mod c02;
pub mod c03;
pub mod c04;
pub mod c05;
pub mod c07;
pub mod c15;
pub mod c16;
pub mod c17;
pub mod c19;
pub mod c20;

pub fn dispatch(id: &str, tier: Tier, seed: u64, _sub: Option<&str>) -> i32 {
    match id {
        "C01" => c01::run(tier, seed),
        "C02" => c02::run(tier, seed),
        "C03" => c03::run(tier, seed),
        "C04" => c04::run(tier, seed),
        "C05" => c05::run(tier, seed),
        "C07" => c07::run(tier, seed),
        "C15" => c15::run(tier, seed),
        "C16" => c16::run(tier, seed),
        "C17" => c17::run(tier, seed),
        "C19" => c19::run(tier, seed),
        "C20" => c20::run(tier, seed),
        _ => {
            eprintln!("unknown check {id}");
            2
        }
    }
}
