use crate::mon::evidence::Tier;

pub mod c19;
pub mod c20;

pub fn dispatch(id: &str, tier: Tier, seed: u64, _sub: Option<&str>) -> i32 {
    match id {
        "C19" => c19::run(tier, seed),
        "C20" => c20::run(tier, seed),
        _ => {
            eprintln!("unknown check {id}");
            2
        }
    }
}
