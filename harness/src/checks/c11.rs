//! C11 — truncation and bit decomposition return the canonical bits.

use std::sync::Arc;

use dusk_bls12_381::BlsScalar;
use rand_core::RngCore;

use super::gadget::{substitutions, Case, Forge, Lab};
use crate::gen::program::{Inputs, Op, Program};
use crate::mon::evidence::{Ev, Tier};
use crate::mon::rng::case_rng;
use crate::refimpl::bigint::U320;
use crate::util::{minus_one, par_cases, pow2, rand_scalar, threads};

fn prog(op: Op) -> Arc<Program> {
    Arc::new(Program { ops: vec![Op::Witness(0), op], n_scalar_inputs: 1, n_point_inputs: 0, n_digit_inputs: 0 })
}

/// witnesses allocated by range_check(value, n)
fn rc_count(n: usize) -> usize {
    if n == 0 {
        0
    } else if n % 2 == 0 {
        n / 2
    } else {
        (n - 1) / 2 + 3
    }
}

fn values(n: usize, rng: &mut impl RngCore) -> Vec<(&'static str, BlsScalar)> {
    let one = BlsScalar::one();
    let r = U320::r();
    let mut v = vec![("0", BlsScalar::zero()), ("1", one), ("r-1", minus_one()), ("random", rand_scalar(rng))];
    if n <= 254 {
        v.push(("2^N-1", pow2(n as u32) - one));
        v.push(("2^N", pow2(n as u32)));
        v.push(("2^N+1", pow2(n as u32) + one));
    }
    // a value whose sum with r still fits: v + r < 2^255 (resp. 2^N for N >= 255)
    let cap = U320::pow2(255).checked_sub(&r).unwrap();
    let small = U320::from_scalar(&rand_scalar(rng)).low_bits(cap.bits() - 1);
    v.push(("v+r-fits-255-bits", small.to_scalar()));
    v.push(("6", BlsScalar::from(6u64)));
    // field fractions (small after multiplication by 2 / 2^j, huge as integers)
    let k = BlsScalar::from(1 + 2 * (rng.next_u64() % 8));
    v.push(("k/2", k * BlsScalar::from(2u64).invert().unwrap()));
    v.push(("k/2^j", k * pow2(1 + rng.next_u32() % 16).invert().unwrap()));
    v.push(("below-2^N-random", U320::from_scalar(&rand_scalar(rng)).low_bits(n.min(254)).to_scalar()));
    v
}

pub fn run(tier: Tier, seed: u64) -> i32 {
    let ev = Ev::new("C11", tier, seed);
    ev.set_rule(
        "cases = (component, width, value): component_truncate<N> N=0..=254 (always satisfiable, returns value mod \
         2^N) and component_decomposition<N> N=1..=256 (satisfiable iff value < 2^N, returns the N canonical \
         little-endian bits); adversaries installed at allocation time: alias split (high', low') of value + r, \
         low +- 2^N with high -+ 1, every guard helper substituted, bit vectors of value + m*r, single flipped \
         bits, a bit set to 2 with a compensating neighbour; satisfied => returned values unchanged and the \
         relation holds; any surviving alias is proved and verified end to end before it is reported; distinct = \
         fingerprint of (component, width, value class, adversary)",
    );
    let lab = Lab { ev: &ev, id: "C11", seed };
    // ---- truncation -----------------------------------------------------------
    par_cases(255, threads(), |ni| {
        let n = ni as usize;
        let mut rng = case_rng(seed, "C11.trunc", ni);
        ev.set_insert("truncate_widths", n);
        for (vi, (vname, v)) in values(n, &mut rng).into_iter().enumerate() {
            let uv = U320::from_scalar(&v);
            let expected = uv.low_bits(n).to_scalar();
            let case = Case {
                component: format!("component_truncate<{n}>"),
                prog: prog(Op::Truncate(n, 2)),
                inputs: Inputs { scalars: vec![v], points: vec![], digits: vec![] },
                op: 1,
                returned: vec![3],
                relation: true,
                expected: vec![expected],
                note: format!("value={vname}"),
            };
            let case = if (vi + n) % 3 == 1 { super::gadget::in_context(case, &mut rng, false, &ev) } else { case };
            let Some(h) = lab.honest(&case) else { continue };
            let low_w = h.own.start;
            let high_w = h.own.start + 1 + rc_count(n);
            // alias split of v + r
            let r = U320::r();
            let alias = uv.add(&r);
            if alias.lt(&U320::pow2(255)) {
                ev.bucket("truncate.alias_attempted");
                let mut f = Forge::new();
                f.insert(low_w, alias.low_bits(n).to_scalar());
                f.insert(high_w, alias.shr(n).to_scalar());
                lab.adversary(&case, &h, "alias-split:v+r", &f);
            }
            // low +- 2^N with high -+ 1 (same field value of the recomposition)
            if n <= 254 {
                let (low, high) = (h.snap.witnesses[low_w], h.snap.witnesses[high_w]);
                for (name, dl, dh) in [("low+2^N,high-1", pow2(n as u32), -BlsScalar::one()), ("low-2^N,high+1", -pow2(n as u32), BlsScalar::one())] {
                    let mut f = Forge::new();
                    f.insert(low_w, low + dl);
                    f.insert(high_w, high + dh);
                    lab.adversary(&case, &h, &format!("shift-split:{name}"), &f);
                }
                // another low with the honest high
                let mut f = Forge::new();
                f.insert(low_w, low + BlsScalar::one());
                lab.adversary(&case, &h, "low+1", &f);
            }
            for (name, forge) in substitutions(&h, &mut rng, 2, tier.pick(8, 30)) {
                lab.adversary(&case, &h, &name, &forge);
            }
            if vname == "random" && (tier == Tier::Thorough || n % 16 == (seed as usize) % 16) {
                lab.confirm(&case, &h, None);
            }
        }
    });
    // ---- decomposition --------------------------------------------------------
    par_cases(256, threads(), |ni| {
        let n = ni as usize + 1;
        let mut rng = case_rng(seed, "C11.dec", ni);
        ev.set_insert("decomposition_widths", n);
        for (vi, (vname, v)) in values(n, &mut rng).into_iter().enumerate() {
            let uv = U320::from_scalar(&v);
            let relation = n >= 255 || uv.lt(&U320::pow2(n));
            let expected: Vec<BlsScalar> = (0..n).map(|i| BlsScalar::from(uv.bit(i))).collect();
            let case = Case {
                component: format!("component_decomposition<{n}>"),
                prog: prog(Op::Decomposition(n, 2)),
                inputs: Inputs { scalars: vec![v], points: vec![], digits: vec![] },
                op: 1,
                returned: (3..3 + n).collect(),
                relation,
                expected,
                note: format!("value={vname}"),
            };
            let case = if (vi + n) % 3 == 1 { super::gadget::in_context(case, &mut rng, false, &ev) } else { case };
            let Some(h) = lab.honest(&case) else { continue };
            let bit_w = |i: usize| h.own.start + 2 * i;
            // bit vectors of v + m r
            let r = U320::r();
            let mut x = uv;
            for m in 1..=2 {
                x = x.add(&r);
                if !x.lt(&U320::pow2(n)) {
                    break;
                }
                ev.bucket("decomposition.alias_attempted");
                let mut f = Forge::new();
                for i in 0..n {
                    f.insert(bit_w(i), BlsScalar::from(x.bit(i)));
                }
                lab.adversary(&case, &h, &format!("alias-bits:v+{m}r"), &f);
            }
            // flipped bits, bit = 2 with compensation
            for _ in 0..3 {
                let i = rng.next_u32() as usize % n;
                let mut f = Forge::new();
                f.insert(bit_w(i), BlsScalar::one() - h.snap.witnesses[bit_w(i)]);
                lab.adversary(&case, &h, "flipped-bit", &f);
                if i + 1 < n {
                    // bit_i + 2 with bit_{i+1} - 1 keeps the weighted sum
                    let mut f = Forge::new();
                    f.insert(bit_w(i), h.snap.witnesses[bit_w(i)] + BlsScalar::from(2u64));
                    f.insert(bit_w(i + 1), h.snap.witnesses[bit_w(i + 1)] - BlsScalar::one());
                    lab.adversary(&case, &h, "bit+2-compensated", &f);
                }
            }
            for (name, forge) in substitutions(&h, &mut rng, 1, tier.pick(6, 20)) {
                lab.adversary(&case, &h, &name, &forge);
            }
            if vname == "random" && (tier == Tier::Thorough || n % 16 == (seed as usize) % 16) {
                lab.confirm(&case, &h, None);
            }
        }
    });
    ev.floor("truncation widths", ev.set_len("truncate_widths") as u64, 255);
    ev.floor("decomposition widths", ev.set_len("decomposition_widths") as u64, 256);
    ev.floor("truncation alias splits attempted", ev.bucket_get("truncate.alias_attempted"), 255);
    ev.floor("decomposition alias vectors attempted", ev.bucket_get("decomposition.alias_attempted"), 2);
    ev.floor("adversarial assignments", ev.bucket_get("adversarial"), 20000);
    ev.floor("end-to-end", ev.bucket_get("end_to_end"), tier.pick(20, 400));
    ev.floor("near-miss assignments (one sub-identity on one row) refused by the real prover", ev.bucket_get("near_miss.end_to_end"), 40);
    ev.floor("sub-identities covered by near misses", ev.set_len("near_miss_identities") as u64, 4);
    ev.floor("cases run in a context of earlier calls on the operands", ev.bucket_get("context.cases"), 500);
    ev.floor("copy-constraint-only forgeries on a consumer of the returned witness, through the real prover", ev.bucket_get("copybreak.end_to_end"), 4);
    ev.finish()
}
