//! C13 — subgroup boundary: only prime-order subgroup points are admitted.

use std::sync::Arc;

use dusk_bls12_381::BlsScalar;
use dusk_jubjub::{JubJubAffine, JubJubExtended, JubJubScalar, EDWARDS_D, GENERATOR_EXTENDED};
use dusk_plonk::prelude::{Composer, Error};
use rand_core::RngCore;
use serde_json::json;

use super::common::{self, Fail};
use super::gadget::{build_forged, Case, Lab};
use crate::gen::program::{Inputs, Op, Program};
use crate::mon::evidence::{Ev, Tier};
use crate::mon::panic::{guard, panic_site};
use crate::mon::rng::case_rng;
use crate::refimpl::jubjub as rj;
use crate::refimpl::sat;
use crate::util::{hx, minus_one, par_cases, rand_scalar, threads};

fn raw(u: BlsScalar, v: BlsScalar) -> JubJubExtended {
    JubJubExtended::from_raw_unchecked(u, v, BlsScalar::one(), u, v)
}

fn sqrt_ratio_point(rng: &mut impl RngCore) -> (BlsScalar, BlsScalar) {
    // a random on-curve point (not necessarily in the subgroup): decompress random bytes
    loop {
        let mut b = [0u8; 32];
        rng.fill_bytes(&mut b);
        b[31] &= 0x7f;
        let p: Option<JubJubAffine> = JubJubAffine::from_bytes(b).into();
        if let Some(p) = p {
            return (p.get_u(), p.get_v());
        }
    }
}

/// P classes: (name, u, v, subgroup component S if P is on the curve)
fn p_classes(rng: &mut impl RngCore, torsion: &[JubJubExtended], k: u64) -> (String, BlsScalar, BlsScalar, Option<JubJubExtended>) {
    let one = BlsScalar::one();
    let zero = BlsScalar::zero();
    let s = GENERATOR_EXTENDED * JubJubScalar::from(1 + rng.next_u64());
    match k % 16 {
        0 => ("identity".into(), zero, one, Some(JubJubExtended::identity())),
        1 | 2 => {
            let (u, v) = rj::affine(&s);
            ("subgroup".into(), u, v, Some(s))
        }
        3..=9 => {
            let t = (k % 16 - 2) as usize; // 1..=7
            let (u, v) = rj::affine(&(s + torsion[t]));
            (format!("S+T{t}"), u, v, Some(s))
        }
        10 => {
            let t = 1 + rng.next_u32() as usize % 7;
            let (u, v) = rj::affine(&torsion[t]);
            (format!("T{t}-alone"), u, v, Some(JubJubExtended::identity()))
        }
        11 => ("off-curve(0,0)".into(), zero, zero, None),
        12 => ("off-curve-random".into(), rand_scalar(rng), rand_scalar(rng), None),
        13 => {
            // a doubling pole: d * u^2 * v^2 = ±1
            let u = rand_scalar(rng);
            let v2 = (EDWARDS_D * u * u).invert().unwrap_or(one);
            ("off-curve-pole".into(), u, v2, None)
        }
        14 => {
            let (u, v) = sqrt_ratio_point(rng);
            // on the curve, almost surely with a torsion component
            let p = rj::from_uv(u, v);
            let cleared = p.mul_by_cofactor(); // 8 P: subgroup
            let s = cleared * rj::eight_inv();
            ("on-curve-random".into(), u, v, Some(s))
        }
        _ => ("off-curve(x,1)".into(), rand_scalar(rng), one, None),
    }
}

pub fn run(tier: Tier, seed: u64) -> i32 {
    let ev = Ev::new("C13", tier, seed);
    ev.set_rule(
        "cases = (coordinate pair P, prover-chosen auxiliary point Q) for the torsion-freeness gates (through the \
         seam and through the public entry point), and extended representations for the host-side predicates of \
         append_constant_point / component_mul_generator / the Z = 0 rejections; oracles: R-SAT satisfied => P on \
         the curve and killed by the subgroup order (own double-and-add) and [8]Q = P; P in the subgroup with Q = \
         8^-1 P (+ any torsion point) => satisfied; Ok/Err of the entry points == the R-JJ predicate; distinct = \
         fingerprint of (P class, Q class, coordinates)",
    );
    let torsion = rj::torsion_points();
    if torsion.len() != 8 {
        ev.inconclusive("could not derive the torsion subgroup");
        return ev.finish();
    }
    let lab = Lab { ev: &ev, id: "C13", seed };
    let eight_inv = rj::eight_inv();

    // ---- A. gates with a chosen auxiliary point --------------------------------
    let n = tier.pick(12800u64, 128000u64);
    par_cases(n, threads(), |ci| {
        let mut rng = case_rng(seed, "C13.A", ci);
        let (pname, u, v, sub) = p_classes(&mut rng, &torsion, ci);
        let p_in_subgroup = rj::in_subgroup(&u, &v);
        // Q classes
        let qclass = (ci / 16) % 8;
        let base_q = sub.map(|s| s * eight_inv);
        let (qname, q): (String, JubJubExtended) = match (qclass, base_q) {
            (0, Some(q)) => ("8^-1*S".into(), q),
            (1 | 2, Some(q)) => {
                let t = 1 + rng.next_u32() as usize % 7;
                (format!("8^-1*S+T{t}"), q + torsion[t])
            }
            (3, _) => ("off-curve".into(), raw(rand_scalar(&mut rng), rand_scalar(&mut rng))),
            (4, _) => {
                let x = rand_scalar(&mut rng);
                ("pole".into(), raw(x, (EDWARDS_D * x * x).invert().unwrap_or(BlsScalar::one())))
            }
            (5, _) => ("identity".into(), JubJubExtended::identity()),
            (6, _) => ("(0,0)".into(), raw(BlsScalar::zero(), BlsScalar::zero())),
            (_, Some(q)) => ("8^-1*S".into(), q),
            (_, None) => ("random-subgroup".into(), GENERATOR_EXTENDED * JubJubScalar::from(rng.next_u64())),
        };
        let (qu, qv) = if qname == "off-curve" || qname == "pole" || qname == "(0,0)" { (q.get_u(), q.get_v()) } else { rj::affine(&q) };
        let prog = Arc::new(Program {
            ops: vec![Op::Witness(0), Op::Witness(1), Op::PointFromRegs(2, 3), Op::SeamTorsionFree(1, 0)],
            n_scalar_inputs: 2,
            n_point_inputs: 1,
            n_digit_inputs: 0,
        });
        let inputs = Inputs { scalars: vec![u, v], points: vec![raw(qu, qv)], digits: vec![] };
        // expected: satisfied iff Q on curve and [8]Q == P (which forces P into the subgroup)
        let q_on_curve = rj::on_curve(&qu, &qv);
        let eight_q = if q_on_curve { Some(rj::affine(&rj::from_uv(qu, qv).mul_by_cofactor())) } else { None };
        let should_hold = q_on_curve && eight_q == Some((u, v));
        let desc = json!({"part": "gates", "P": pname, "Q": qname, "u": hx(&u), "v": hx(&v), "p_in_subgroup": p_in_subgroup, "expected_satisfied": should_hold});
        ev.case(&desc, true);
        ev.set_insert("p_classes", pname.split(['T']).next().unwrap());
        ev.set_insert("pq_classes", format!("{}|{}", pname, qname.split('T').next().unwrap()));
        let layout = match common::build_instance(&prog, &Inputs::default_for(&prog), &[]) {
            Ok((s, _)) => s,
            Err(f) => {
                ev.violation("C13:seam-default-build-failed", json!({"error": f.text()}));
                return;
            }
        };
        match build_forged(&prog, &inputs, None) {
            Ok((snap, _)) => {
                let rep = sat::check(&layout, &snap);
                ev.bucket(if rep.satisfied() { "gates.satisfied" } else { "gates.unsatisfied" });
                if rep.satisfied() && !p_in_subgroup {
                    let c = Case { component: "assert_torsion_free_gates".into(), prog: prog.clone(), inputs: inputs.clone(), op: 3, returned: vec![], relation: false, expected: vec![], note: String::new() };
                    let verdict = lab.end_to_end(&c, None);
                    ev.violation(&format!("C13:torsion-gates-satisfied-for-point-outside-subgroup:{}:verifier={verdict}", pname.split(|c: char| c.is_ascii_digit()).next().unwrap()), json!({"case": desc, "q": [hx(&qu), hx(&qv)]}));
                }
                if rep.satisfied() != should_hold {
                    ev.violation(&format!("C13:torsion-gates-decision-differs-from-[8]Q=P:{}", if rep.satisfied() { "satisfied" } else { "unsatisfied" }), json!({"case": desc, "q": [hx(&qu), hx(&qv)]}));
                }
                if ci % tier.pick(80, 20) == 0 {
                    let c = Case { component: "assert_torsion_free_gates".into(), prog: prog.clone(), inputs: inputs.clone(), op: 3, returned: vec![], relation: should_hold, expected: vec![], note: String::new() };
                    let h = super::gadget::Honest { layout: layout.clone(), snap: snap.clone(), regs: Default::default(), own: 0..0, rows: 0..0 };
                    lab.confirm(&c, &h, None);
                }
            }
            Err(Fail::Err(e)) => ev.violation("C13:seam-returned-error", json!({"case": desc, "error": format!("{e:?}")})),
            Err(Fail::Panic(p)) => ev.violation(&format!("C13:panic-in-torsion-gates:{}", panic_site(&p)), json!({"case": desc, "panic": p})),
        }
        // the public entry point picks Q itself: satisfiable iff P in the subgroup
        if qclass == 0 {
            let prog2 = Arc::new(Program { ops: vec![Op::Witness(0), Op::Witness(1), Op::PointFromRegs(2, 3), Op::AssertTorsionFree(1)], n_scalar_inputs: 2, n_point_inputs: 0, n_digit_inputs: 0 });
            let c = Case { component: "assert_torsion_free_point".into(), prog: prog2, inputs: Inputs { scalars: vec![u, v], points: vec![], digits: vec![] }, op: 3, returned: vec![], relation: p_in_subgroup, expected: vec![], note: pname.clone() };
            ev.bucket(if p_in_subgroup { "public.in_subgroup" } else { "public.outside" });
            if let Some(h) = lab.honest(&c) {
                // adversary: forge the auxiliary point chosen by the host
                let own: Vec<usize> = h.own.clone().collect();
                if own.len() >= 2 {
                    for t in 1..8 {
                        if let Some(qb) = base_q {
                            let (a, b) = rj::affine(&(qb + torsion[t]));
                            let mut f = super::gadget::Forge::new();
                            f.insert(own[0], a);
                            f.insert(own[1], b);
                            lab.adversary(&c, &h, &format!("aux-point:+T{t}"), &f);
                        }
                    }
                    for (name, forge) in super::gadget::substitutions(&h, &mut rng, 1, 6) {
                        lab.adversary(&c, &h, &name, &forge);
                    }
                }
            }
        }
    });

    // ---- B. host-side predicates on extended representations ---------------------
    let m = tier.pick(12000u64, 120000u64);
    par_cases(m, threads(), |ci| {
        let mut rng = case_rng(seed, "C13.B", ci);
        let (pname, u, v, _) = p_classes(&mut rng, &torsion, ci);
        // representation: scale by z, optionally break T1*T2 or set Z = 0
        let (rname, z, t_ok) = match (ci / 16) % 5 {
            0 => ("z=1", BlsScalar::one(), true),
            1 => ("z=random", rand_scalar(&mut rng), true),
            2 => ("z=0", BlsScalar::zero(), true),
            3 => ("bad-t", BlsScalar::one(), false),
            _ => ("z=-1", minus_one(), true),
        };
        let (t1, t2) = if t_ok { (u, v) } else { (u + BlsScalar::one(), v) };
        // extended coordinates (U, V, Z, T1, T2) with u = U/Z, v = V/Z, T1*T2 = U*V/Z
        let ext = JubJubExtended::from_raw_unchecked(u * z, v * z, z, t1 * z, t2);
        let z_nonzero = z != BlsScalar::zero();
        let consistent_t = t_ok;
        let in_sub = rj::in_subgroup(&u, &v);
        let is_identity = u == BlsScalar::zero() && v == BlsScalar::one();
        let want_constant = z_nonzero && consistent_t && in_sub;
        let want_generator = want_constant && !is_identity;
        let desc = json!({"part": "host-predicates", "P": pname, "representation": rname, "u": hx(&u), "v": hx(&v)});
        ev.case(&desc, true);
        ev.set_insert("representations", rname);
        let check = |name: &str, want_ok: Option<bool>, f: &dyn Fn(&mut Composer) -> Result<(), Error>| {
            let r = guard(|| {
                let mut c = Composer::initialized();
                f(&mut c)
            });
            ev.bucket(&format!("entry.{name}"));
            match r {
                Err(p) => ev.violation(&format!("C13:{name}:panic:{}:{rname}", panic_site(&p)), json!({"case": desc, "panic": p})),
                Ok(res) => {
                    if !z_nonzero && res.is_ok() {
                        ev.violation(&format!("C13:{name}:accepts-zero-z"), json!({"case": desc}));
                    }
                    if let Some(w) = want_ok {
                        ev.bucket(if res.is_ok() { "predicate.ok" } else { "predicate.err" });
                        if res.is_ok() != w {
                            ev.violation(
                                &format!("C13:{name}:predicate-differs:{}:{}:{rname}", if res.is_ok() { "accepts" } else { "rejects" }, pname.split(|c: char| c.is_ascii_digit()).next().unwrap()),
                                json!({"case": desc, "expected_ok": w, "got": format!("{res:?}")}),
                            );
                        }
                    }
                }
            }
        };
        check("append_constant_point", Some(want_constant), &|c| c.append_constant_point(ext).map(|_| ()));
        check("component_mul_generator", Some(want_generator), &|c| {
            let s = c.append_witness(BlsScalar::from(5u64));
            c.component_mul_generator(s, ext).map(|_| ())
        });
        // value fidelity: an accepted representation must enter the circuit as the
        // affine point it denotes (constants baked, witnesses and public inputs)
        if z_nonzero {
            use crate::gen::program::{Inputs as In, Op as O, Program as P};
            let cases: Vec<(&str, Vec<O>, usize)> = vec![
                ("append_constant_point", vec![O::ConstantPoint(ext), O::PointCoords(1)], 0),
                ("append_point", vec![O::Point(0), O::PointCoords(1)], 1),
                ("append_public_point", vec![O::PublicPoint(0), O::PointCoords(1)], 1),
            ];
            for (name, ops, npts) in cases {
                if name == "append_constant_point" && !want_constant {
                    continue;
                }
                let prog = Arc::new(P { ops, n_scalar_inputs: 0, n_point_inputs: npts, n_digit_inputs: 0 });
                let inputs = In { scalars: vec![], points: vec![ext; npts], digits: vec![] };
                match build_forged(&prog, &inputs, None) {
                    Ok((snap, regs)) => {
                        ev.bucket("value_fidelity");
                        let got = (snap.witnesses[regs.s[2].index()], snap.witnesses[regs.s[3].index()]);
                        if got != (u, v) {
                            ev.violation(&format!("C13:{name}:enters-the-circuit-as-another-point:{rname}"), json!({"case": desc, "got": [hx(&got.0), hx(&got.1)]}));
                        }
                        // the rows it emitted hold for exactly that value
                        let layout = common::build_instance(&prog, &In { scalars: vec![], points: vec![JubJubExtended::identity(); npts], digits: vec![] }, &[]);
                        if let (Ok((l, _)), true) = (layout, name == "append_constant_point") {
                            if !sat::check(&l, &snap).satisfied() {
                                ev.violation(&format!("C13:{name}:honest-constant-unsatisfied:{rname}"), json!({"case": desc}));
                            }
                        }
                        if name == "append_public_point" {
                            let pis: Vec<BlsScalar> = snap.public_inputs.iter().map(|(_, x)| *x).collect();
                            if pis != vec![u, v] {
                                ev.violation(&format!("C13:{name}:public-inputs-are-not-the-affine-coordinates:{rname}"), json!({"case": desc}));
                            }
                        }
                    }
                    Err(Fail::Panic(p)) => ev.violation(&format!("C13:{name}:panic:{}:{rname}", panic_site(&p)), json!({"case": desc})),
                    Err(Fail::Err(_)) => {}
                }
            }
        }
        // these only have to reject Z = 0 (and never panic)
        check("append_point", if z_nonzero { Some(true) } else { Some(false) }, &|c| c.append_point(ext).map(|_| ()));
        check("append_public_point", if z_nonzero { Some(true) } else { Some(false) }, &|c| c.append_public_point(ext).map(|_| ()));
        check("assert_equal_public_point", if z_nonzero { Some(true) } else { Some(false) }, &|c| {
            let p = c.append_point(GENERATOR_EXTENDED)?;
            c.assert_equal_public_point(p, ext)
        });
    });

    // ---- B2. the same predicates on a composer with a history -------------------
    // A composer that has already accepted a valid point P0 (as a constant, as a
    // generator, as a witness) must judge a later candidate exactly as a fresh
    // one does - in particular candidates that share P0's compressed encoding
    // (same v and the same parity of u, but off the curve), inconsistent
    // extended representations of P0 itself, and torsion translates of P0.
    let m2 = tier.pick(1500u64, 15000u64);
    par_cases(m2, threads(), |ci| {
        let mut rng = case_rng(seed, "C13.B2", ci);
        let p0 = GENERATOR_EXTENDED * JubJubScalar::from(1 + rng.next_u64());
        let (u0, v0) = rj::affine(&p0);
        let two = BlsScalar::from(2u64);
        let (cname, u, v, z, t_ok): (&str, BlsScalar, BlsScalar, BlsScalar, bool) = match ci % 9 {
            0 => ("same-encoding:u+2", u0 + two, v0, BlsScalar::one(), true),
            1 => ("same-encoding:u+2k", u0 + two * BlsScalar::from(1 + rng.next_u64() % 1000), v0, BlsScalar::one(), true),
            2 => ("same-encoding:u-2", u0 - two, v0, rand_scalar(&mut rng), true),
            3 => ("P0-with-inconsistent-T", u0, v0, BlsScalar::one(), false),
            4 => {
                let t = 1 + rng.next_u32() as usize % 7;
                let (a, b) = rj::affine(&(p0 + torsion[t]));
                ("P0+torsion", a, b, BlsScalar::one(), true)
            }
            5 => ("P0-again", u0, v0, rand_scalar(&mut rng), true),
            6 => ("-P0", -u0, v0, BlsScalar::one(), true),
            7 => ("same-u-other-v", u0, v0 + two, BlsScalar::one(), true),
            _ => ("P0-zero-z", u0, v0, BlsScalar::zero(), true),
        };
        let (t1, t2) = if t_ok { (u, v) } else { (u + BlsScalar::one(), v) };
        let ext = JubJubExtended::from_raw_unchecked(u * z, v * z, z, t1 * z, t2);
        let want_constant = z != BlsScalar::zero() && t_ok && rj::in_subgroup(&u, &v);
        let want_generator = want_constant && !(u == BlsScalar::zero() && v == BlsScalar::one());
        let desc = json!({"part": "host-predicates-with-history", "candidate": cname, "u0": hx(&u0), "v0": hx(&v0), "u": hx(&u), "v": hx(&v)});
        ev.case(&desc, true);
        ev.set_insert("history_candidates", cname);
        for (hname, prime) in [("constant", 0u8), ("generator", 1), ("witness-and-constant", 2)] {
            for (name, want) in [("append_constant_point", want_constant), ("component_mul_generator", want_generator)] {
                let r = guard(|| -> Result<Result<(), Error>, Error> {
                    let mut c = Composer::initialized();
                    match prime {
                        0 => {
                            c.append_constant_point(p0)?;
                        }
                        1 => {
                            let s = c.append_witness(BlsScalar::from(3u64));
                            c.component_mul_generator(s, p0)?;
                        }
                        _ => {
                            c.append_point(p0)?;
                            c.append_constant_point(p0)?;
                            c.append_constant_point(-p0)?;
                        }
                    }
                    Ok(if name == "append_constant_point" {
                        c.append_constant_point(ext).map(|_| ())
                    } else {
                        let s = c.append_witness(BlsScalar::from(5u64));
                        c.component_mul_generator(s, ext).map(|_| ())
                    })
                });
                ev.bucket("history.predicates");
                match r {
                    Err(p) => ev.violation(&format!("C13:{name}:panic-after-history:{}", panic_site(&p)), json!({"case": desc, "history": hname, "panic": p})),
                    Ok(Err(e)) => ev.violation(&format!("C13:{name}:valid-point-rejected-while-priming"), json!({"case": desc, "history": hname, "error": format!("{e:?}")})),
                    Ok(Ok(res)) => {
                        ev.bucket(if res.is_ok() { "history.ok" } else { "history.err" });
                        if res.is_ok() != want {
                            ev.violation(
                                &format!("C13:{name}:predicate-differs-after-history:{}:{}", if res.is_ok() { "accepts" } else { "rejects" }, cname.split(':').next().unwrap()),
                                json!({"case": desc, "history": hname, "expected_ok": want, "got": format!("{res:?}")}),
                            );
                        }
                    }
                }
            }
        }
    });

    ev.floor("host predicates evaluated on a composer with a history", ev.bucket_get("history.predicates"), tier.pick(5000, 50000));
    ev.floor("candidate classes after a history", ev.set_len("history_candidates") as u64, 9);
    ev.floor("accepted after a history", ev.bucket_get("history.ok"), 500);
    ev.floor("rejected after a history", ev.bucket_get("history.err"), 2000);
    ev.floor("P/Q class combinations", ev.set_len("pq_classes") as u64, 40);
    ev.floor("gates satisfied", ev.bucket_get("gates.satisfied"), 100);
    ev.floor("gates unsatisfied", ev.bucket_get("gates.unsatisfied"), 800);
    ev.floor("public entry point, outside the subgroup", ev.bucket_get("public.outside"), 50);
    ev.floor("host predicate evaluations", ev.bucket_get("entry.append_constant_point"), 500);
    ev.floor("predicate Ok", ev.bucket_get("predicate.ok"), 300);
    ev.floor("predicate Err", ev.bucket_get("predicate.err"), 300);
    ev.floor("representations", ev.set_len("representations") as u64, 5);
    ev.floor("value fidelity checks", ev.bucket_get("value_fidelity"), 1000);
    ev.floor("end to end", ev.bucket_get("end_to_end"), 10);
    ev.floor("near-miss assignments (one sub-identity on one row) refused by the real prover", ev.bucket_get("near_miss.end_to_end"), 6);
    ev.floor("sub-identities covered by near misses", ev.set_len("near_miss_identities") as u64, 1);
    ev.finish()
}
