//! C05 — Prover exactness: `prove` returns a proof iff R-SAT says the
//! instance satisfies the compiled layout; otherwise CircuitUnsatisfied.

use std::sync::Arc;

use dusk_bls12_381::BlsScalar;
use dusk_plonk::prelude::{Error, PlonkVersion};
use rand_core::RngCore;
use serde_json::json;

use super::common::{self, Fail};
use crate::gen::build::{self, Builder, GenCfg};
use crate::gen::program::{Inputs, Op, Pi, Program, Tamper};
use crate::mon::evidence::{Ev, Tier};
use crate::mon::panic::panic_site;
use crate::mon::rng::case_rng;
use crate::refimpl::sat::{self, Comp};
use crate::util::{hx, par_cases, pool_scalar, rand_scalar, threads};

struct Lab<'a> {
    ev: &'a Ev,
    seed: u64,
}

fn s(v: u64) -> BlsScalar {
    BlsScalar::from(v)
}

/// Raw custom row on the last row of a full domain, satisfied against the
/// all-zero wires of row 0 (the cyclic next row).
fn last_row_custom(b: &mut Builder, rng: &mut impl RngCore, family: u32) {
    let z = BlsScalar::zero();
    let four_inv = s(4).invert().unwrap();
    let mut sel = [z; 11];
    let mut q = |rng: &mut dyn RngCore| s((rng.next_u32() % 4) as u64);
    match family {
        0 => {
            // range: d_next(=0) - 4a, a - 4b, b - 4c, c - 4d are quads
            sel[sat::Q_RANGE] = BlsScalar::one();
            let a = -(q(rng)) * four_inv;
            let bb = (a - q(rng)) * four_inv;
            let c = (bb - q(rng)) * four_inv;
            let d = (c - q(rng)) * four_inv;
            let w = [b.witness(a), b.witness(bb), b.witness(c), b.witness(d)];
            b.push(Op::Raw { s: sel, pi: Pi::None, w }).unwrap();
        }
        1 => {
            // logic (AND or XOR): next row is zero, so quads are -4a, -4b, -4d
            let xor = rng.next_u32() % 2 == 0;
            sel[sat::Q_LOGIC] = if xor { -BlsScalar::one() } else { BlsScalar::one() };
            sel[sat::Q_C] = sel[sat::Q_LOGIC];
            let (qa, qb) = (rng.next_u32() % 4, rng.next_u32() % 4);
            let qo = if xor { qa ^ qb } else { qa & qb };
            let a = -s(qa as u64) * four_inv;
            let bb = -s(qb as u64) * four_inv;
            let d = -s(qo as u64) * four_inv;
            let c = s((qa * qb) as u64);
            let w = [b.witness(a), b.witness(bb), b.witness(c), b.witness(d)];
            b.push(Op::Raw { s: sel, pi: Pi::None, w }).unwrap();
        }
        2 => {
            // variable base: next row (x3, y3, x1*y2) = 0 forces x1*y2 = 0,
            // y1*x2 = 0, y1*y2 + x1*x2 = 0: take (x1, y1) = (0, 0)
            sel[sat::Q_VAR] = BlsScalar::one();
            let w = [b.witness(z), b.witness(z), b.witness(pool_scalar(rng)), b.witness(pool_scalar(rng))];
            b.push(Op::Raw { s: sel, pi: Pi::None, w }).unwrap();
        }
        _ => {
            // fixed base: next row zero => bit = -2 d must be in {-1,0,1};
            // take d = 0 (bit 0): xy_alpha = c = 0, acc_x_next = 0 = acc_x
            // * 1 + acc_y * 0 => acc_x = 0; acc_y_next = 0 = acc_y => acc_y = 0
            sel[sat::Q_FIXED] = BlsScalar::one();
            sel[sat::Q_L] = pool_scalar(rng);
            sel[sat::Q_R] = pool_scalar(rng);
            sel[sat::Q_C] = sel[sat::Q_L] * sel[sat::Q_R];
            let w = [b.witness(z), b.witness(z), b.witness(z), b.witness(z)];
            b.push(Op::Raw { s: sel, pi: Pi::None, w }).unwrap();
        }
    }
}

/// Small single-gadget programs so every identity component is reachable.
fn gadget_program(rng: &mut impl RngCore, kind: u32) -> Builder {
    let mut b = Builder::new();
    match kind {
        0 => {
            let v = b.witness(s(rng.next_u64() % (1 << 20)));
            b.push(Op::RangeBits(20 + (rng.next_u32() % 5) as usize, v)).unwrap();
        }
        1 => {
            let x = b.witness(rand_scalar(rng));
            let y = b.witness(rand_scalar(rng));
            let p = 1 + rng.next_u32() as usize % 6;
            if rng.next_u32() % 2 == 0 {
                b.push(Op::LogicAnd(p, x, y)).unwrap();
            } else {
                b.push(Op::LogicXor(p, x, y)).unwrap();
            }
        }
        2 => {
            let i = b.point_input(build::subgroup_point(rng));
            b.push(Op::Point(i)).unwrap();
            let p = b.last_p();
            let j = b.point_input(build::subgroup_point(rng));
            b.push(Op::Point(j)).unwrap();
            let q = b.last_p();
            b.push(Op::SeamAddPoint(p, q)).unwrap();
        }
        3 => {
            let sc = dusk_jubjub::JubJubScalar::from(rng.next_u64());
            let r = b.witness(BlsScalar::from(sc));
            b.push(Op::MulGenerator(r, dusk_jubjub::GENERATOR_EXTENDED)).unwrap();
        }
        4 => {
            let i = b.point_input(build::subgroup_point(rng));
            b.push(Op::Point(i)).unwrap();
            let p = b.last_p();
            b.push(Op::AssertTorsionFree(p)).unwrap();
        }
        _ => {
            let x = b.witness(rand_scalar(rng));
            b.push(Op::Truncate(1 + rng.next_u32() as usize % 40, x)).unwrap();
        }
    }
    b
}

fn one_program(lab: &Lab, ci: u64, prog: Arc<Program>, inputs: Inputs, kind: &str, n_tamper: usize) {
    let ev = lab.ev;
    let mut rng = case_rng(lab.seed, "C05.inst", ci);
    let rows = {
        // cheap: rows known after compile
        0
    };
    let _ = rows;
    // compile
    let layout_rows;
    let compiled = {
        // capacity: minimal admitting degree, sometimes roomier
        let (snap, _) = match common::build_instance(&prog, &Inputs::default_for(&prog), &[]) {
            Ok(x) => x,
            Err(f) => {
                ev.violation(&format!("C05:default-instance-build:{}", f.text().chars().take(60).collect::<String>()),
                    json!({"kind": kind, "ops": prog.tags(), "error": f.text()}));
                return;
            }
        };
        layout_rows = snap.gates.len();
        let deg = common::min_degree(layout_rows) * if ci % 3 == 0 { 2 } else { 1 };
        let pp = crate::util::pp(deg);
        match common::compile(&pp, format!("c05-{ci}").as_bytes(), &prog) {
            Ok(c) => c,
            Err(f) => {
                ev.violation(&format!("C05:compile-failed:{}", short(&f)), json!({"kind": kind, "ops": prog.tags(), "rows": layout_rows, "error": f.text()}));
                return;
            }
        }
    };
    let layout = &compiled.layout;
    for (row, _) in &layout.public_inputs {
        let qa = layout.gates[*row].sel[6];
        if qa != BlsScalar::one() {
            // the public input is not scaled by q_arith in the row identity
            ev.bucket(if qa == BlsScalar::zero() { "pi_rows.q_arith_zero" } else { "pi_rows.q_arith_other" });
        }
    }
    let honest = common::build_instance(&prog, &inputs, &[]).ok().map(|(s, _)| s);
    let nwit = honest.as_ref().map(|h| h.witnesses.len()).unwrap_or(0);
    // instances: honest + tampered
    let mut instances: Vec<(String, Inputs, Vec<Tamper>)> = vec![("honest".into(), inputs.clone(), vec![])];
    for t in 0..n_tamper {
        let mode = rng.next_u32() % 10;
        match mode {
            0..=3 if nwit > 0 => {
                // witness value substitution (keeps copy constraints, breaks identities)
                let w = rng.next_u32() as usize % nwit;
                let v = match rng.next_u32() % 4 {
                    0 => pool_scalar(&mut rng),
                    1 => rand_scalar(&mut rng),
                    _ => {
                        // small delta on the honest value
                        let d = [1u64, 2, 3, 4, 16][rng.next_u32() as usize % 5];
                        honest.as_ref().unwrap().witnesses[w] + BlsScalar::from(d)
                    }
                };
                instances.push((format!("set-witness#{t}"), inputs.clone(), vec![Tamper::SetWitness(w, v)]));
            }
            4..=6 => {
                // cell rewiring: may break only a copy constraint
                let row = rng.next_u32() as usize % layout_rows;
                let wire = rng.next_u32() as usize % 4;
                let to = if rng.next_u32() % 2 == 0 { 1 } else { rng.next_u32() as usize % nwit.max(1) };
                instances.push((format!("set-wire#{t}"), inputs.clone(), vec![Tamper::SetWire { row, wire, witness: to }]));
            }
            7 => {
                if let Some((row, v)) = layout.public_inputs.get(rng.next_u32() as usize % layout.public_inputs.len().max(1)).copied() {
                    let _ = v;
                    instances.push((format!("set-pi#{t}"), inputs.clone(), vec![Tamper::SetPi { row, value: pool_scalar(&mut rng) }]));
                }
            }
            _ => {
                // change one scalar input
                if !inputs.scalars.is_empty() {
                    let mut inp = inputs.clone();
                    let i = rng.next_u32() as usize % inp.scalars.len();
                    inp.scalars[i] = match rng.next_u32() % 3 {
                        0 => inp.scalars[i] + BlsScalar::one(),
                        1 => pool_scalar(&mut rng),
                        _ => rand_scalar(&mut rng),
                    };
                    instances.push((format!("input#{t}"), inp, vec![]));
                }
            }
        }
    }
    for (iname, inp, tam) in instances {
        let mut prng = case_rng(lab.seed ^ 0x55, "C05.prove", ci * 1000 + iname.len() as u64);
        let pool = crate::util::POOL_SIZES[(ci as usize + iname.len() + lab.seed as usize) % crate::util::POOL_SIZES.len()];
        ev.set_insert("prover_pools", pool);
        let proved = crate::util::in_pool(pool, ci, || common::prove(&compiled.prover, &prog, &inp, &tam, &mut prng, PlonkVersion::V3));
        let Some((inst, _)) = proved.instance else {
            // circuit() itself failed (host-side guard) or panicked
            match &proved.result {
                Err(Fail::Panic(p)) => ev.violation(&format!("C05:panic-in-circuit:{}", panic_site(p)), json!({"kind": kind, "ops": prog.tags(), "instance": iname, "panic": p})),
                _ => ev.bucket("circuit_err_outside_precondition"),
            }
            ev.case(&json!({"kind": kind, "instance": iname, "ci": ci, "circuit_err": true}), false);
            continue;
        };
        let rep = sat::check(layout, &inst);
        let comps = rep.components();
        let nontrivial = rep.selected_rows >= 1;
        let desc = json!({"kind": kind, "rows": layout_rows, "instance": iname, "ci": ci,
            "tamper": format!("{tam:?}").chars().take(120).collect::<String>(),
            "rsat": if rep.satisfied() { "satisfied".to_string() } else { comps.iter().map(|c| c.name()).collect::<Vec<_>>().join("+") },
            "prove": match &proved.result { Ok(_) => "Ok".to_string(), Err(f) => f.text() }});
        ev.case(&desc, nontrivial);
        ev.set_insert("kinds", kind);
        if rep.satisfied() {
            ev.bucket("rsat.satisfied");
        } else {
            ev.bucket("rsat.unsatisfied");
            if comps.len() == 1 {
                ev.set_insert("violated_alone", comps[0].name());
            }
            for c in &comps {
                ev.set_insert("violated", c.name());
            }
        }
        let detail = || json!({"case": desc, "ops": prog.tags(), "inputs": crate::util::hxs(&inp.scalars),
            "violated": rep.violated.iter().take(8).map(|(r, c)| format!("{r}:{}", c.name())).collect::<Vec<_>>()});
        match (&proved.result, rep.satisfied()) {
            (Ok((proof, pis)), true) => {
                // the proof must verify, PIs returned = instance PIs
                let want: Vec<BlsScalar> = inst.public_inputs.iter().map(|(_, v)| *v).collect();
                if *pis != want {
                    ev.violation("C05:returned-public-inputs-differ", detail());
                }
                match common::verify(&compiled.verifier, proof, pis, PlonkVersion::V3) {
                    Ok(()) => ev.bucket("proved_and_verified"),
                    Err(f) => ev.violation(&format!("C05:proof-of-satisfied-instance-rejected:{}", short(&f)), detail()),
                }
            }
            (Ok((proof, pis)), false) => {
                let verdict = common::verify(&compiled.verifier, proof, pis, PlonkVersion::V3);
                let comp = comps.iter().map(|c| c.name()).collect::<Vec<_>>().join("+");
                ev.violation(
                    &format!("C05:proved-unsatisfied-instance:{comp}:verifier={}", if verdict.is_ok() { "ACCEPTS" } else { "rejects" }),
                    detail(),
                );
            }
            (Err(Fail::Err(Error::CircuitUnsatisfied)), false) => ev.bucket("unsat_reported"),
            (Err(Fail::Err(Error::InvalidCircuitSize(..))), false) if comps == vec![Comp::Size] => ev.bucket("size_reported"),
            (Err(Fail::Panic(p)), _) => ev.violation(&format!("C05:prove-panicked:{}", panic_site(p)), detail()),
            (Err(f), true) => ev.violation(&format!("C05:satisfied-instance-not-proved:{}", short(f)), detail()),
            (Err(f), false) => ev.violation(&format!("C05:wrong-error-for-unsatisfied:{}", short(f)), detail()),
        }
    }
}

fn short(f: &Fail) -> String {
    match f {
        Fail::Err(e) => format!("{e:?}").split(['(', '{', ' ']).next().unwrap_or("").to_string(),
        Fail::Panic(p) => format!("panic@{}", panic_site(p)),
    }
}

pub fn run(tier: Tier, seed: u64) -> i32 {
    let ev = Ev::new("C05", tier, seed);
    ev.set_rule(
        "cases = (generated program, instance) pairs: the honest instance and instances with one \
         substituted witness / re-wired cell / changed public input / changed input; R-SAT decides \
         satisfaction row by row against the compiled layout and the real Prover::prove result must \
         match; non-trivial = the layout has >= 1 row with a non-zero arithmetic or custom selector \
         (always true beyond the prelude) and R-SAT was evaluated; distinct = fingerprint of (program \
         kind, case index, instance, verdicts)",
    );
    ev.assume("R-SAT's identities are the protocol's (transcribed once; logic polynomial validated against the truth table at start-up)");
    ev.assume("every-component-zero-on-every-row is equivalent to divisibility up to 2^-250 (independent separation challenges)");
    if !sat::logic_selftest() {
        ev.inconclusive("R-SAT logic polynomial self-test failed");
        return ev.finish();
    }
    let lab = Lab { ev: &ev, seed };

    // A. random programs over all families
    let n_rand = tier.pick(40u64, 500u64);
    par_cases(n_rand, threads(), |ci| {
        let mut rng = case_rng(seed, "C05.A", ci);
        let mut cfg = GenCfg::all();
        cfg.heavy = ci % 10 == 0;
        let rows = if cfg.heavy { 900 + rng.next_u32() as usize % 400 } else { 8 + rng.next_u32() as usize % 150 };
        let b = build::random_program(&mut rng, &cfg, rows);
        let (prog, inputs) = b.finish();
        one_program(&lab, ci, prog, inputs, "random", tier.pick(8, 14));
    });
    // B. single gadgets, heavy tampering (reaches the custom-gate components)
    let n_gad = tier.pick(36u64, 360u64);
    par_cases(n_gad, threads(), |ci| {
        let mut rng = case_rng(seed, "C05.B", ci);
        let kind = (ci % 6) as u32;
        let b = gadget_program(&mut rng, kind);
        let (prog, inputs) = b.finish();
        let name = ["gadget-range", "gadget-logic", "gadget-add-point", "gadget-mul-generator", "gadget-torsion-free", "gadget-truncate"][kind as usize];
        one_program(&lab, 10_000 + ci, prog, inputs, name, tier.pick(14, 30));
    });
    // C. custom row on the last row of a full domain (cyclic next-row read)
    let n_last = tier.pick(16u64, 96u64);
    par_cases(n_last, threads(), |ci| {
        let mut rng = case_rng(seed, "C05.C", ci);
        let k = 3 + (ci / 4) % tier.pick(4, 7); // domain 8..64 (quick) / ..512
        let domain = 1usize << k;
        let fam = (ci % 4) as u32;
        let mut b = build::random_program(&mut rng, &GenCfg::arith_only(), domain - 1);
        last_row_custom(&mut b, &mut rng, fam);
        assert_eq!(b.rows(), domain);
        let (prog, inputs) = b.finish();
        ev.set_insert("last_row_family", fam);
        one_program(&lab, 20_000 + ci, prog, inputs, "last-row-custom", tier.pick(10, 16));
    });

    // D. several rows violated at once with equal residues on rows that are
    // n/2 (or n/4) apart: the remainder's high coefficients cancel, which a
    // detection rule looking at too few coefficients would miss. Roomy SRS so
    // that the commit key cannot mask a missed detection.
    let n_sym = tier.pick(48u64, 480u64);
    par_cases(n_sym, threads(), |ci| {
        let mut rng = case_rng(seed, "C05.D", ci);
        let k = 3 + (ci % 4) as u32; // domain 8..64
        let n = 1usize << k;
        let rows = if ci % 2 == 0 { n } else { n - 1 - (rng.next_u32() as usize % (n / 4)) };
        // one fresh witness per row, each pinned by its own assert_equal_constant row
        let mut b = Builder::new();
        let mut row_witness: Vec<(usize, usize)> = Vec::new(); // (row, witness index)
        while b.rows() < rows {
            let v = pool_scalar(&mut rng);
            let r = b.witness(v);
            let w = b.regs.s[r].index();
            b.push(Op::AssertEqConst(r, v, Pi::None)).unwrap();
            row_witness.push((b.rows() - 1, w));
        }
        let (prog, inputs) = b.finish();
        // choose the symmetric row set
        let parts = if ci % 3 == 0 && n >= 16 { 4 } else { 2 };
        let step = n / parts;
        let candidates: Vec<usize> = (4..step.max(5)).filter(|i| (0..parts).all(|j| i + j * step < rows && i + j * step >= 4)).collect();
        if candidates.is_empty() {
            return;
        }
        let i0 = candidates[rng.next_u32() as usize % candidates.len()];
        let mut delta = pool_scalar(&mut rng) + BlsScalar::one();
        if delta == BlsScalar::zero() {
            delta = BlsScalar::from(5u64);
        }
        let mut tamper = Vec::new();
        for j in 0..parts {
            let row = i0 + j * step;
            if let Some((_, w)) = row_witness.iter().find(|(r, _)| *r == row) {
                tamper.push((row, *w));
            }
        }
        if tamper.len() != parts {
            return;
        }
        let honest = common::build_instance(&prog, &inputs, &[]).ok().map(|(s, _)| s);
        let Some(honest) = honest else { return };
        let tam: Vec<Tamper> = tamper.iter().map(|(_, w)| Tamper::SetWitness(*w, honest.witnesses[*w] + delta)).collect();
        let deg = common::min_degree(rows) * [1usize, 2, 8][(ci % 3) as usize];
        let pp = crate::util::pp(deg);
        let compiled = match common::compile(&pp, format!("c05-sym-{ci}").as_bytes(), &prog) {
            Ok(c) => c,
            Err(f) => {
                ev.violation("C05:compile-failed:symmetric", json!({"error": f.text()}));
                return;
            }
        };
        let mut prng = case_rng(seed, "C05.D.prove", ci);
        let proved = common::prove(&compiled.prover, &prog, &inputs, &tam, &mut prng, PlonkVersion::V3);
        let Some((inst, _)) = proved.instance else { return };
        let rep = sat::check(&compiled.layout, &inst);
        let desc = json!({"kind": "symmetric-violations", "domain": n, "rows": rows, "violated_rows": tamper.iter().map(|(r, _)| *r).collect::<Vec<_>>(),
            "srs_degree": deg, "prove": match &proved.result { Ok(_) => "Ok".to_string(), Err(f) => f.text() }});
        ev.case(&desc, true);
        ev.bucket("symmetric_cases");
        if rep.satisfied() {
            ev.inconclusive("symmetric violation came out satisfied");
            return;
        }
        ev.bucket("rsat.unsatisfied");
        match &proved.result {
            Err(Fail::Err(Error::CircuitUnsatisfied)) => ev.bucket("unsat_reported"),
            Ok((proof, pis)) => {
                let verdict = common::verify(&compiled.verifier, proof, pis, PlonkVersion::V3);
                ev.violation(&format!("C05:proved-unsatisfied-instance:symmetric-residues:verifier={}", if verdict.is_ok() { "ACCEPTS" } else { "rejects" }), json!({"case": desc}));
            }
            Err(Fail::Panic(p)) => ev.violation(&format!("C05:prove-panicked:{}", panic_site(p)), json!({"case": desc})),
            Err(f) => ev.violation(&format!("C05:wrong-error-for-unsatisfied:{}", short(f)), json!({"case": desc})),
        }
    });

    // E. Two identity components of one range row violated with cancelling
    // residues: delta(u) + delta(v) = 0 for delta(x) = x(x-1)(x-2)(x-3). The
    // row is unsatisfied (two components non-zero), so the prover must refuse -
    // it does unless two of the four deltas are weighted with the same power of
    // the separation challenge. (u, v) by solving the quartic through
    // s = x - 3/2, where delta = S^2 - (5/2) S + 9/16 with S = s^2.
    let n_pairs = tier.pick(24u64, 240u64);
    par_cases(n_pairs, threads(), |ci| {
        use ff::Field;
        let mut rng = case_rng(seed, "C05.E", ci);
        let (i, j) = [(0usize, 1usize), (0, 2), (0, 3), (1, 2), (1, 3), (2, 3)][(ci % 6) as usize];
        let half = BlsScalar::from(2u64).invert().unwrap();
        let three_half = BlsScalar::from(3u64) * half;
        let delta = |x: BlsScalar| x * (x - BlsScalar::one()) * (x - BlsScalar::from(2u64)) * (x - BlsScalar::from(3u64));
        let mut pair = None;
        for _ in 0..64 {
            let su = rand_scalar(&mut rng);
            let u = su + three_half;
            let t = delta(u);
            // S_v = (5/2 +- sqrt(4 - 4T)) / 2
            let disc = BlsScalar::from(4u64) - BlsScalar::from(4u64) * t;
            let Some(root) = Option::<BlsScalar>::from(disc.sqrt()) else { continue };
            for sign in [root, -root] {
                let s_v2 = (BlsScalar::from(5u64) * half + sign) * half;
                if let Some(sv) = Option::<BlsScalar>::from(s_v2.sqrt()) {
                    let v = sv + three_half;
                    if delta(u) + delta(v) == BlsScalar::zero() && delta(u) != BlsScalar::zero() {
                        pair = Some((u, v));
                    }
                }
            }
            if pair.is_some() {
                break;
            }
        }
        let Some((u, v)) = pair else {
            ev.bucket("cancelling_pair_not_found");
            return;
        };
        // quads x_0..x_3 of the row: c - 4d, b - 4c, a - 4b, d_next - 4a
        let mut x = [BlsScalar::from(rng.next_u64() % 4), BlsScalar::from(rng.next_u64() % 4), BlsScalar::from(rng.next_u64() % 4), BlsScalar::from(rng.next_u64() % 4)];
        x[i] = u;
        x[j] = v;
        let four = BlsScalar::from(4u64);
        let d = BlsScalar::from(rng.next_u64() % 1000);
        let c = four * d + x[0];
        let b_ = four * c + x[1];
        let a = four * b_ + x[2];
        let d_next = four * a + x[3];
        let z = BlsScalar::zero();
        let mut sel = [z; 11];
        sel[crate::refimpl::sat::Q_RANGE] = BlsScalar::one();
        // registers 2..6 = a, b, c, d, d_next; filler rows before so that the row is not first
        let mut ops = vec![Op::Witness(0), Op::Witness(1), Op::Witness(2), Op::Witness(3), Op::Witness(4)];
        for _ in 0..(ci / 6 % 5) {
            ops.push(Op::Raw { s: [z; 11], pi: Pi::None, w: [0, 0, 0, 0] });
        }
        ops.push(Op::Raw { s: sel, pi: Pi::None, w: [2, 3, 4, 5] });
        ops.push(Op::Raw { s: [z; 11], pi: Pi::None, w: [0, 0, 0, 6] });
        let prog = Arc::new(Program { ops, n_scalar_inputs: 5, n_point_inputs: 0, n_digit_inputs: 0 });
        let inputs = Inputs { scalars: vec![a, b_, c, d, d_next], points: vec![], digits: vec![] };
        let Ok((layout, _)) = common::build_instance(&prog, &Inputs::default_for(&prog), &[]) else { return };
        let pp = crate::util::pp(common::min_degree(layout.gates.len()));
        let Ok(compiled) = common::compile(&pp, b"c05-pairs", &prog) else {
            ev.violation("C05:compile-failed:cancelling-pair-layout", json!({"ci": ci}));
            return;
        };
        let mut prng = case_rng(seed, "C05.E.prove", ci);
        let proved = common::prove(&compiled.prover, &prog, &inputs, &[], &mut prng, PlonkVersion::V3);
        let Some((inst, _)) = proved.instance else { return };
        let rep = sat::check(&compiled.layout, &inst);
        let names: Vec<String> = rep.violated.iter().map(|(_, k)| k.name().to_string()).collect();
        let desc = json!({"kind": "cancelling-pair", "family": "range", "components": [i, j], "violated": names,
            "prove": match &proved.result { Ok(_) => "Ok".to_string(), Err(f) => f.text() }});
        ev.case(&desc, true);
        ev.bucket("cancelling_pairs");
        ev.set_insert("cancelling_pair_components", format!("range.{i}+range.{j}"));
        if rep.violated.len() != 2 {
            ev.inconclusive(&format!("cancelling pair violates {} components instead of 2", rep.violated.len()));
            return;
        }
        match &proved.result {
            Err(Fail::Err(Error::CircuitUnsatisfied)) => ev.bucket("unsat_reported"),
            Ok((proof, pis)) => {
                let verdict = common::verify(&compiled.verifier, proof, pis, PlonkVersion::V3);
                ev.violation(&format!("C05:proved-unsatisfied-instance:cancelling-residues:range.{i}+range.{j}:verifier={}", if verdict.is_ok() { "ACCEPTS" } else { "rejects" }), json!({"case": desc}));
            }
            Err(Fail::Panic(p)) => ev.violation(&format!("C05:prove-panicked:{}", panic_site(p)), json!({"case": desc})),
            Err(f) => ev.violation(&format!("C05:wrong-error-for-unsatisfied:{}", short(f)), json!({"case": desc})),
        }
    });

    ev.floor("pairs of range components violated with cancelling residues", ev.set_len("cancelling_pair_components") as u64, 6);
    ev.floor("satisfied instances", ev.bucket_get("rsat.satisfied"), tier.pick(60, 600));
    ev.floor("unsatisfied instances", ev.bucket_get("rsat.unsatisfied"), tier.pick(100, 1500));
    ev.floor("proved and verified", ev.bucket_get("proved_and_verified"), tier.pick(60, 600));
    ev.floor("components seen violated", ev.set_len("violated") as u64, 14);
    ev.floor("public-input rows whose q_arith is neither 0 nor 1", ev.bucket_get("pi_rows.q_arith_other"), tier.pick(3, 30));
    ev.floor("public-input rows with q_arith = 0", ev.bucket_get("pi_rows.q_arith_zero"), tier.pick(3, 30));
    ev.floor("copy-only violations", if ev.sets_contains("violated_alone", "copy") { 1 } else { 0 }, 1);
    ev.floor("last-row families", ev.set_len("last_row_family") as u64, 4);
    ev.floor("symmetric multi-row violations", ev.bucket_get("symmetric_cases"), tier.pick(20, 200));
    ev.finish()
}
