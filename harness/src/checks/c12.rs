//! C12 — curve-group components compute the JubJub group law.

use std::sync::Arc;

use dusk_bls12_381::BlsScalar;
use dusk_jubjub::{JubJubExtended, JubJubScalar, GENERATOR_EXTENDED, GENERATOR_NUMS_EXTENDED};
use rand_core::RngCore;

use super::c07::hostile_scalar;
use super::gadget::{substitutions, Case, Forge, Lab};
use crate::gen::program::{Inputs, Op, Program};
use crate::mon::evidence::{Ev, Tier};
use crate::mon::rng::case_rng;
use crate::refimpl::bigint::U320;
use crate::refimpl::jubjub as rj;
use crate::util::{minus_one, par_cases, pow2, rand_scalar, threads};

/// [Point(0), Point(1), Witness(0), op, PointCoords(result)]
fn prog(op: Op, result_preg: usize) -> Arc<Program> {
    Arc::new(Program {
        ops: vec![Op::Point(0), Op::Point(1), Op::Witness(0), op, Op::PointCoords(result_preg)],
        n_scalar_inputs: 1,
        n_point_inputs: 2,
        n_digit_inputs: 0,
    })
}

fn sub_point(rng: &mut impl RngCore) -> JubJubExtended {
    match rng.next_u32() % 7 {
        0 => JubJubExtended::identity(),
        1 => GENERATOR_EXTENDED,
        2 => GENERATOR_NUMS_EXTENDED,
        3 => GENERATOR_EXTENDED * JubJubScalar::from(2u64),
        4 => -GENERATOR_EXTENDED,
        _ => GENERATOR_EXTENDED * JubJubScalar::from(rng.next_u64()),
    }
}

fn pair(rng: &mut impl RngCore, class: u64) -> (&'static str, JubJubExtended, JubJubExtended) {
    let p = GENERATOR_EXTENDED * JubJubScalar::from(1 + rng.next_u64());
    match class % 7 {
        0 => ("identity+identity", JubJubExtended::identity(), JubJubExtended::identity()),
        1 => ("identity+P", JubJubExtended::identity(), p),
        2 => ("P+identity", p, JubJubExtended::identity()),
        3 => ("P+(-P)", p, -p),
        4 => ("P+P", p, p),
        5 => ("small-multiples", GENERATOR_EXTENDED * JubJubScalar::from(rng.next_u64() % 5), GENERATOR_EXTENDED * JubJubScalar::from(rng.next_u64() % 5)),
        _ => ("P+Q", p, sub_point(rng)),
    }
}

fn coords(p: &JubJubExtended) -> Vec<BlsScalar> {
    let (u, v) = rj::affine(p);
    vec![u, v]
}

pub fn run(tier: Tier, seed: u64) -> i32 {
    let ev = Ev::new("C12", tier, seed);
    ev.set_rule(
        "cases = (component, subgroup points, scalar / bit): honest assignment (documented relation <=> R-SAT \
         satisfied; returned coordinates = native dusk-jubjub result) and adversarial assignments of the helper \
         wires installed at allocation time (x1*y2, x3, y3 of any addition, intermediate select outputs, \
         decomposition bits): negated / foreign / zero / random coordinates, with every later double-and-add round \
         re-propagated; satisfied => returned coordinates unchanged; distinct = fingerprint of (component, class, \
         adversary, forged values)",
    );
    ev.assume("dusk-jubjub's native addition, doubling and negation are the group law (trusted base)");
    let lab = Lab { ev: &ev, id: "C12", seed };
    let n = tier.pick(1400u64, 14000u64);
    par_cases(n, threads(), |ci| {
        let mut rng = case_rng(seed, "C12", ci);
        let kind = ci % 7;
        let (pname, mut p, mut q) = pair(&mut rng, ci / 7);
        let one = BlsScalar::one();
        let mut scalar = BlsScalar::zero();
        // operand wiring: the two input points, or the composer's constant
        // IDENTITY (point register 0) itself as the first / second operand,
        // or a circuit constant (ZERO / ONE register) as the bit / scalar
        let wiring = (ci / 49) % 6;
        let (pa, pb, wname) = match wiring {
            3 => {
                p = JubJubExtended::identity();
                (0usize, 2usize, "constant-identity-first")
            }
            4 => {
                q = JubJubExtended::identity();
                (1, 0, "constant-identity-second")
            }
            _ => (1, 2, if wiring == 5 { "constant-bit-or-scalar" } else { "input-points" }),
        };
        let const_bit: Option<(usize, BlsScalar)> = if wiring == 5 { Some(if (ci / 7) % 2 == 0 { (1, one) } else { (0, BlsScalar::zero()) }) } else { None };
        ev.set_insert("wirings", wname);
        ev.bucket(&format!("wiring.{wname}"));
        // point registers: 0 = IDENTITY, 1 = pt0, 2 = pt1; scalar registers: 2 = in0, result coords at 3, 4
        let case = match kind {
            0 => Case { component: "component_add_point".into(), prog: prog(Op::AddPoint(pa, pb), 3), inputs: Inputs::default(), op: 3, returned: vec![3, 4], relation: true, expected: coords(&(p + q)), note: pname.into() },
            1 => Case { component: "component_sub_point".into(), prog: prog(Op::SubPoint(pa, pb), 3), inputs: Inputs::default(), op: 3, returned: vec![3, 4], relation: true, expected: coords(&(p - q)), note: pname.into() },
            2 => Case { component: "component_neg_point".into(), prog: prog(Op::NegPoint(pa), 3), inputs: Inputs::default(), op: 3, returned: vec![3, 4], relation: true, expected: coords(&(-p)), note: pname.into() },
            3 | 4 => {
                let (bname, bit) = match (ci / 7) % 6 {
                    0 | 1 => ("bit=0", BlsScalar::zero()),
                    2 | 3 => ("bit=1", one),
                    4 => ("bit=2", BlsScalar::from(2u64)),
                    _ => ("bit=-1", minus_one()),
                };
                let (breg, bname, bit) = match const_bit {
                    Some((r, v)) => (r, if r == 1 { "bit=ONE-constant" } else { "bit=ZERO-constant" }, v),
                    None => (2usize, bname, bit),
                };
                scalar = bit;
                let boolean = bit == one || bit == BlsScalar::zero();
                if kind == 3 {
                    let exp = if bit == one { p } else { JubJubExtended::identity() };
                    // select_identity emits component_boolean + two selection rows: result preg 3
                    Case { component: "component_select_identity".into(), prog: prog(Op::SelectIdentity(breg, pa), 3), inputs: Inputs::default(), op: 3, returned: vec![3, 4], relation: boolean, expected: coords(&exp), note: format!("{pname},{bname}") }
                } else {
                    // select_point does not constrain the bit: the documented value is the mux formula
                    let (pu, pv) = rj::affine(&p);
                    let (qu, qv) = rj::affine(&q);
                    let exp = vec![bit * pu + (one - bit) * qu, bit * pv + (one - bit) * qv];
                    Case { component: "component_select_point".into(), prog: prog(Op::SelectPoint(breg, pa, pb), 3), inputs: Inputs::default(), op: 3, returned: vec![3, 4], relation: true, expected: exp, note: format!("{pname},{bname}") }
                }
            }
            _ => {
                // mul_point
                let rjs = rj::subgroup_order();
                let (sname, s) = match (ci / 7) % 12 {
                    0 => ("0", BlsScalar::zero()),
                    1 => ("1", one),
                    2 => ("2", BlsScalar::from(2u64)),
                    3 => ("r_j-1", rjs - one),
                    4 => ("r_j", rjs),
                    5 => ("r_j+1", rjs + one),
                    6 => ("2^252-1", pow2(252) - one),
                    7 => ("2^252", pow2(252)),
                    8 => ("random>=2^252", {
                        let mut x = rand_scalar(&mut rng);
                        if U320::from_scalar(&x).lt(&U320::pow2(252)) {
                            x += pow2(252);
                        }
                        x
                    }),
                    9 => ("hostile", hostile_scalar(&mut rng)),
                    _ => ("random<2^252", U320::from_scalar(&rand_scalar(&mut rng)).low_bits(252).to_scalar()),
                };
                let (sreg, sname, s) = match const_bit {
                    Some((r, v)) => (r, if r == 1 { "ONE-constant" } else { "ZERO-constant" }, v),
                    None => (2usize, sname, s),
                };
                scalar = s;
                let fits = U320::from_scalar(&s).lt(&U320::pow2(252));
                let exp = rj::mul_scalar(&p, &s);
                // result point register: decomposition pushes no points; rounds push 3 points each... the
                // returned point is the last one pushed: resolve after the build (see below)
                Case { component: "component_mul_point".into(), prog: prog(Op::MulPoint(sreg, pa), 3), inputs: Inputs::default(), op: 3, returned: vec![3, 4], relation: fits, expected: coords(&exp), note: format!("{pname},s={sname}") }
            }
        };
        let mut case = case;
        case.inputs = Inputs { scalars: vec![scalar], points: vec![p, q], digits: vec![] };
        ev.bucket(&format!("class.{}", pname));
        ev.set_insert("components", case.component.as_str());
        let case = if ci % 3 == 1 { super::gadget::in_context(case, &mut rng, true, &ev) } else { case };
        let Some(h) = lab.honest(&case) else { return };
        // targeted: coordinates of additions replaced by the negated / foreign point
        let own: Vec<usize> = h.own.clone().collect();
        if matches!(kind, 0 | 1 | 5 | 6) && own.len() >= 3 {
            // the last addition's helper wires are the last three own witnesses: x1y2, x3, y3
            let k = own.len() - 3;
            let (x3, y3) = (h.snap.witnesses[own[k + 1]], h.snap.witnesses[own[k + 2]]);
            let foreign = rj::affine(&(GENERATOR_EXTENDED * JubJubScalar::from(rng.next_u64())));
            for (name, nx, ny) in [("negated", -x3, y3), ("foreign-point", foreign.0, foreign.1), ("zero", BlsScalar::zero(), BlsScalar::zero()), ("identity", BlsScalar::zero(), one), ("y-negated", x3, -y3)] {
                if (nx, ny) == (x3, y3) {
                    continue;
                }
                let mut f = Forge::new();
                f.insert(own[k + 1], nx);
                f.insert(own[k + 2], ny);
                lab.adversary(&case, &h, &format!("result-coordinates:{name}"), &f);
            }
            let mut f = Forge::new();
            f.insert(own[k], h.snap.witnesses[own[k]] + one);
            lab.adversary(&case, &h, "x1y2+1", &f);
        }
        if kind >= 5 && own.len() > 600 {
            // an intermediate addition in the middle of the ladder, negated, carried through the remaining rounds
            let bits = 2 * 252;
            let round = 8; // witnesses per round: add(3) + select(2) + add(3)
            for _ in 0..3 {
                let r = rng.next_u32() as usize % 252;
                let base = bits + r * round;
                if base + 1 >= own.len() {
                    ev.bucket("unexpected-layout.adversaries-skipped");
                    continue;
                }
                let mut f = Forge::new();
                f.insert(own[base + 1], -h.snap.witnesses[own[base + 1]]);
                lab.adversary(&case, &h, "ladder-intermediate:negated-x", &f);
            }
            // a decomposition bit flipped (the scalar witness keeps its value)
            let i = rng.next_u32() as usize % 252;
            let mut f = Forge::new();
            if 2 * i >= own.len() {
                return;
            }
            f.insert(own[2 * i], one - h.snap.witnesses[own[2 * i]]);
            lab.adversary(&case, &h, "decomposition-bit:flipped", &f);
        }
        // free-operand adversary: wherever an addition row has an operand whose two
        // coordinates are witnesses of the component itself (not pinned inputs), the
        // row's equations are a quadratic system in that operand: compute its second
        // solution (Vieta) and install it together with the matching helper wire
        {
            use crate::refimpl::sat::Q_VAR;
            let rows: Vec<usize> = h.rows.clone().collect();
            let mut tried = 0;
            for &row in &rows {
                if h.layout.gates[row].sel[Q_VAR] == BlsScalar::zero() || row + 1 >= h.snap.gates.len() || tried >= 3 {
                    continue;
                }
                let g = &h.snap.gates[row];
                let nx = &h.snap.gates[row + 1];
                let wv = |i: usize| h.snap.witnesses[i];
                for (fx, fy, px, py) in [(g.w[0], g.w[1], g.w[2], g.w[3]), (g.w[2], g.w[3], g.w[0], g.w[1])] {
                    if !(h.own.contains(&fx) && h.own.contains(&fy)) || fx == px || fy == py || fx == fy {
                        continue;
                    }
                    let (x2, y2, x3, y3) = (wv(px), wv(py), wv(nx.w[0]), wv(nx.w[1]));
                    let first_is_free = fx == g.w[0];
                    if let Some((nx1, ny1)) = second_solution(x2, y2, x3, y3, wv(fx), first_is_free) {
                        if (nx1, ny1) == (wv(fx), wv(fy)) {
                            continue;
                        }
                        let mut f = Forge::new();
                        f.insert(fx, nx1);
                        f.insert(fy, ny1);
                        // helper wire x1*y2 of this row (next row, wire d)
                        let helper = if first_is_free { nx1 * y2 } else { x2 * ny1 };
                        if h.own.contains(&nx.w[3]) {
                            f.insert(nx.w[3], helper);
                        }
                        tried += 1;
                        lab.adversary(&case, &h, "free-operand:second-solution", &f);
                    }
                }
            }
        }
        let budget = if kind >= 5 { tier.pick(12, 40) } else { 10 };
        for (name, forge) in substitutions(&h, &mut rng, 2, budget) {
            lab.adversary(&case, &h, &name, &forge);
        }
        let e2e_every = if kind >= 5 { tier.pick(40, 10) } else { tier.pick(25, 8) };
        if (ci / 7) % e2e_every == 0 {
            lab.confirm(&case, &h, None);
        }
    });
    ev.floor("components", ev.set_len("components") as u64, 6);
    ev.floor("operand wirings (input points, constant IDENTITY first / second, constant bit or scalar)", ev.set_len("wirings") as u64, 4);
    for w in ["constant-identity-first", "constant-identity-second", "constant-bit-or-scalar"] {
        ev.floor(&format!("cases with wiring {w}"), ev.bucket_get(&format!("wiring.{w}")), tier.pick(100, 1000));
    }
    for c in ["identity+identity", "identity+P", "P+identity", "P+(-P)", "P+P", "P+Q", "small-multiples"] {
        ev.floor(&format!("pair class {c}"), ev.bucket_get(&format!("class.{c}")), 5);
    }
    ev.floor("adversarial assignments", ev.bucket_get("adversarial"), tier.pick(5000, 50000));
    ev.floor("adversarial assignments unsatisfied", ev.bucket_get("adversarial.unsatisfied"), tier.pick(4000, 40000));
    ev.floor("end-to-end", ev.bucket_get("end_to_end"), 10);
    ev.floor("near-miss assignments (one sub-identity on one row) refused by the real prover", ev.bucket_get("near_miss.end_to_end"), 50);
    ev.floor("sub-identities covered by near misses", ev.set_len("near_miss_identities") as u64, 2);
    ev.floor("cases run in a context of earlier calls on the operands", ev.bucket_get("context.cases"), 150);
    ev.floor("copy-constraint-only forgeries on a consumer of the returned witness, through the real prover", ev.bucket_get("copybreak.end_to_end"), 8);
    ev.finish()
}

/// Second solution of one variable-base addition row in its free operand.
/// Row semantics: (x1,y1) + (x2,y2) = (x3,y3) with helper x1*y2, checked as
///   x3 (1 + d x1y2 y1x2) = x1y2 + y1x2,   y3 (1 - d x1y2 y1x2) = y1y2 + x1x2.
/// `free_is_first`: the unknown operand is (x1,y1) (else (x2,y2)); (px,py) is
/// the pinned one. Returns the other root of the resulting quadratic.
fn second_solution(px: BlsScalar, py: BlsScalar, x3: BlsScalar, y3: BlsScalar, honest_fx: BlsScalar, free_is_first: bool) -> Option<(BlsScalar, BlsScalar)> {
    use dusk_jubjub::EDWARDS_D as D;
    // express the free y through the free x from the x3 equation, then the
    // y3 equation times the denominator is a quadratic G in the free x
    let fy_of = |fx: BlsScalar| -> Option<(BlsScalar, BlsScalar)> {
        // returns (numerator, denominator) of fy
        if free_is_first {
            // x3 + x3 d (fx py)(fy px) = fx py + fy px  =>  fy (x3 d fx py px - px) = fx py - x3
            Some((fx * py - x3, x3 * D * fx * py * px - px))
        } else {
            // operands swapped: x1 = px, y1 = py, x2 = fx, y2 = fy
            // x3 + x3 d (px fy)(py fx) = px fy + py fx => fy (x3 d px py fx - px) = py fx - x3
            Some((py * fx - x3, x3 * D * px * py * fx - px))
        }
    };
    let g = |fx: BlsScalar| -> Option<BlsScalar> {
        let (num, den) = fy_of(fx)?;
        // residual of the y3 equation multiplied by den (fy = num/den)
        let (x1y2_y1x2_num, y1y2_num, x1x2) = if free_is_first {
            // x1y2 * y1x2 = (fx py)(fy px); y1 y2 = fy py; x1 x2 = fx px
            (fx * py * px * num, num * py, fx * px)
        } else {
            // x1y2 * y1x2 = (px fy)(py fx); y1 y2 = py fy; x1 x2 = px fx
            (px * py * fx * num, py * num, px * fx)
        };
        Some(y3 * den - y3 * D * x1y2_y1x2_num - y1y2_num - x1x2 * den)
    };
    let (g0, g1, g2) = (g(BlsScalar::zero())?, g(BlsScalar::one())?, g(BlsScalar::from(2u64))?);
    // G(x) = A x^2 + B x + C through three points
    let c = g0;
    let two_inv = BlsScalar::from(2u64).invert()?;
    let a = (g2 - g1 - g1 + g0) * two_inv;
    let b = g1 - g0 - a;
    if a == BlsScalar::zero() {
        return None;
    }
    // other root: r1 + r2 = -B/A
    let r2 = -b * a.invert()? - honest_fx;
    let (num, den) = fy_of(r2)?;
    let fy = num * den.invert()?;
    if g(r2)? != BlsScalar::zero() {
        return None;
    }
    let _ = c;
    Some((r2, fy))
}
