//! C16 — serialization round trips preserve keys, proofs and parameters;
//! proof encoding is canonical.

use dusk_bls12_381::BlsScalar;
use dusk_bytes::{DeserializableSlice, Serializable};
use dusk_plonk::prelude::{PlonkVersion, Proof, Prover, PublicParameters, Verifier};
use dusk_plonk::verif as dv;
use rand_core::RngCore;
use serde_json::json;

use super::c03::{field_range, PROOF_FIELDS};
use super::common::{self, Fail, RealDecision};
use crate::gen::build::GenCfg;
use crate::gen::mutate;
use crate::gen::program::HC;
use crate::mon::evidence::{Ev, Tier};
use crate::mon::panic::{guard, panic_site};
use crate::mon::rng::{case_rng, ScriptedRng};
use crate::util::{par_cases, pool_scalar, rand_scalar, threads};

pub fn run(tier: Tier, seed: u64) -> i32 {
    let ev = Ev::new("C16", tier, seed);
    ev.set_rule(
        "cases = (object, round trip): provers/verifiers of generated circuits re-encoded after decoding and \
         compared in behaviour (same proof from the same scripted RNG; same decisions on honest and mutated \
         proofs), public parameters of many degrees through both encodings, and proof byte strings mutated \
         towards non-canonical encodings (accepted => re-encodes to itself); non-trivial = key object carries \
         >= 1 public-input row or custom gate / mutated proof string differs from the honest one; distinct = \
         fingerprint of the case descriptor",
    );
    keys(&ev, tier, seed);
    parameters(&ev, tier, seed);
    proof_canonicity(&ev, tier, seed);
    ev.floor("key round trips", ev.bucket_get("key_roundtrips"), tier.pick(30, 300));
    ev.floor("label lengths (0 .. 5000 bytes)", ev.set_len("label_lengths") as u64, 8);
    ev.floor("decoded prover proves identically", ev.bucket_get("same_proof_after_decode"), tier.pick(30, 300));
    ev.floor("verifier decisions compared", ev.bucket_get("decisions_compared"), tier.pick(3000, 30000));
    ev.floor("decisions: accepts", ev.bucket_get("decision.accept"), 30);
    ev.floor("decisions: rejects", ev.bucket_get("decision.reject"), 1000);
    ev.floor("parameter degrees", ev.set_len("pp_degrees") as u64, tier.pick(12, 30));
    ev.floor("mutated proof strings", ev.bucket_get("proof_strings"), tier.pick(2000, 100_000));
    let acc = ev.bucket_get("proof_strings.accepted");
    ev.floor("accepted mutated proof strings (>= 1%)", acc * 100, ev.bucket_get("proof_strings"));
    ev.finish()
}

fn keys(ev: &Ev, tier: Tier, seed: u64) {
    let n = tier.pick(32u64, 320u64);
    par_cases(n, threads(), |ci| {
        let mut rng = case_rng(seed, "C16.keys", ci);
        let rows = [5usize, 8, 9, 16, 17, 31, 33, 64, 100, 128, 250, 257, 511, 513, 1000, 1024][ci as usize % 16];
        let rows = if tier == Tier::Thorough && ci % 40 == 39 { 4000 } else { rows };
        let mut cfg = GenCfg::all();
        cfg.heavy = rows >= 500;
        // labels of many lengths (the encodings carry the label behind a length field)
        let label: Vec<u8> = {
            let len = [6usize, 0, 255, 256, 300, 1024, 5000, 65][ci as usize % 8];
            let mut l = format!("c16-{ci}-").into_bytes();
            while l.len() < len {
                l.push(b'a' + (l.len() % 26) as u8);
            }
            l.truncate(len.max(if len == 0 { 0 } else { 1 }));
            l
        };
        ev.set_insert("label_lengths", label.len());
        let spec = match common::specimen(&mut rng, &cfg, rows, &label) {
            Ok(s) => s,
            Err(e) => {
                ev.violation("C16:specimen-failed", json!({"error": e}));
                return;
            }
        };
        let nontrivial = !spec.pi.is_empty() || spec.families.iter().any(|f| *f != "arithmetic");
        let desc = json!({"part": "keys", "rows": rows, "families": spec.families, "public_inputs": spec.pi.len(), "ci": ci});
        ev.case(&desc, nontrivial);
        ev.bucket("key_roundtrips");
        ev.set_insert("key_rows", rows);
        // ---- prover ----------------------------------------------------------
        let pbytes = spec.compiled.prover.to_bytes();
        if pbytes.len() != spec.compiled.prover.serialized_size() {
            ev.violation("C16:prover-serialized_size-wrong", json!({"case": desc}));
        }
        match guard(|| Prover::try_from_bytes(&pbytes)) {
            Ok(Ok(p2)) => {
                if p2.to_bytes() != pbytes {
                    ev.violation("C16:prover-reencodes-differently", json!({"case": desc}));
                }
                // same proof from the same randomness
                let script: Vec<BlsScalar> = (0..14).map(|_| rand_scalar(&mut rng)).collect();
                let hc = HC::new(spec.prog.clone(), spec.inputs.clone());
                for version in [PlonkVersion::V3, PlonkVersion::V2] {
                    let a = guard(|| spec.compiled.prover.prove_with_version(&mut ScriptedRng::new(&script), &hc, version));
                    let b = guard(|| p2.prove_with_version(&mut ScriptedRng::new(&script), &hc, version));
                    match (a, b) {
                        (Ok(Ok((pa, ia))), Ok(Ok((pb, ib)))) => {
                            if pa.to_bytes() != pb.to_bytes() || ia != ib {
                                ev.violation("C16:decoded-prover-proves-differently", json!({"case": desc, "version": format!("{version:?}")}));
                            } else {
                                ev.bucket("same_proof_after_decode");
                            }
                        }
                        (a, b) => ev.violation("C16:prove-failed-after-roundtrip", json!({"case": desc,
                            "original": format!("{:?}", a.map(|r| r.map(|_| ()))), "decoded": format!("{:?}", b.map(|r| r.map(|_| ())))})),
                    }
                }
            }
            Ok(Err(e)) => ev.violation("C16:prover-own-bytes-rejected", json!({"case": desc, "error": format!("{e:?}")})),
            Err(p) => ev.violation(&format!("C16:prover-decode-panicked:{}", panic_site(&p)), json!({"case": desc, "panic": p})),
        }
        // ---- verifier ----------------------------------------------------------
        let vbytes = &spec.vbytes;
        if vbytes.len() != spec.compiled.verifier.serialized_size() {
            ev.violation("C16:verifier-serialized_size-wrong", json!({"case": desc}));
        }
        match guard(|| Verifier::try_from_bytes(vbytes)) {
            Ok(Ok(v2)) => {
                if v2.to_bytes() != *vbytes {
                    ev.violation("C16:verifier-reencodes-differently", json!({"case": desc}));
                }
                // same decisions
                let other = &spec.proof_v2;
                let mut trials: Vec<(Vec<u8>, Vec<BlsScalar>, PlonkVersion)> = vec![
                    (spec.proof_v3.clone(), spec.pi.clone(), PlonkVersion::V3),
                    (spec.proof_v2.clone(), spec.pi.clone(), PlonkVersion::V2),
                    (spec.proof_v2.clone(), spec.pi.clone(), PlonkVersion::V3),
                    (spec.proof_v3.clone(), spec.pi.clone(), PlonkVersion::V1),
                ];
                for _ in 0..tier.pick(100, 200) {
                    let mut p = spec.proof_v3.clone();
                    let f = rng.next_u32() as usize % 26;
                    match rng.next_u32() % 4 {
                        0 => p[field_range(f)].copy_from_slice(&other[field_range(f)]),
                        1 => {
                            let i = rng.next_u32() as usize % p.len();
                            p[i] ^= 1 << (rng.next_u32() % 8);
                        }
                        2 if f >= 11 => p[field_range(f)].copy_from_slice(&pool_scalar(&mut rng).to_bytes()),
                        _ => {
                            let g = if f < 11 { rng.next_u32() as usize % 11 } else { 11 + rng.next_u32() as usize % 15 };
                            let src = p[field_range(g)].to_vec();
                            p[field_range(f)].copy_from_slice(&src);
                        }
                    }
                    let mut pi = spec.pi.clone();
                    if !pi.is_empty() && rng.next_u32() % 4 == 0 {
                        let k = rng.next_u32() as usize % pi.len();
                        pi[k] += BlsScalar::one();
                    }
                    if rng.next_u32() % 16 == 0 {
                        pi.push(BlsScalar::zero());
                    }
                    trials.push((p, pi, PlonkVersion::V3));
                }
                for (p, pi, ver) in trials {
                    let a = common::real_decide_with(&spec.compiled.verifier, &p, &pi, ver);
                    let b = common::real_decide_with(&v2, &p, &pi, ver);
                    ev.bucket("decisions_compared");
                    ev.bucket(if a.accepts() { "decision.accept" } else { "decision.reject" });
                    if let RealDecision::Panic(pn) = &b {
                        ev.violation(&format!("C16:decoded-verifier-panicked:{}", panic_site(pn)), json!({"case": desc}));
                    }
                    if a.accepts() != b.accepts() {
                        ev.violation("C16:decoded-verifier-decides-differently", json!({"case": desc, "original": format!("{a:?}"), "decoded": format!("{b:?}"), "proof": hex::encode(&p)}));
                    }
                }
            }
            Ok(Err(e)) => ev.violation("C16:verifier-own-bytes-rejected", json!({"case": desc, "error": format!("{e:?}")})),
            Err(p) => ev.violation(&format!("C16:verifier-decode-panicked:{}", panic_site(&p)), json!({"case": desc, "panic": p})),
        }
        // ---- proof ---------------------------------------------------------------
        for pb in [&spec.proof_v3, &spec.proof_v2] {
            match Proof::from_slice(pb) {
                Ok(p) => {
                    if p.to_bytes()[..] != pb[..] {
                        ev.violation("C16:proof-reencodes-differently", json!({"case": desc}));
                    }
                }
                Err(e) => ev.violation("C16:proof-own-bytes-rejected", json!({"case": desc, "error": format!("{e:?}")})),
            }
        }
    });
}

fn parameters(ev: &Ev, tier: Tier, seed: u64) {
    let mut degrees: Vec<usize> = vec![1, 2, 3, 4, 7, 8, 9, 16, 17, 32, 64, 100, 256, 1024];
    if tier == Tier::Thorough {
        degrees.extend([5, 6, 10, 12, 15, 31, 33, 63, 65, 127, 128, 129, 255, 257, 500, 512, 2048, 4096]);
    }
    par_cases(degrees.len() as u64, threads(), |ci| {
        let d = degrees[ci as usize];
        let mut rng = case_rng(seed, "C16.pp", ci);
        // a fresh setup for small degrees, the cached family for large ones
        let pp = if d <= 64 {
            match guard(|| PublicParameters::setup(d, &mut rng)) {
                Ok(Ok(p)) => std::sync::Arc::new(p),
                _ => {
                    ev.violation("C16:setup-failed", json!({"degree": d}));
                    return;
                }
            }
        } else {
            crate::util::pp(d)
        };
        let desc = json!({"part": "parameters", "degree": d});
        ev.case(&desc, true);
        ev.set_insert("pp_degrees", d);
        let var = pp.to_var_bytes();
        match guard(|| PublicParameters::from_slice(&var)) {
            Ok(Ok(p2)) => {
                if p2.to_var_bytes() != var || p2.to_raw_var_bytes() != pp.to_raw_var_bytes() || p2.max_degree() != pp.max_degree() {
                    ev.violation("C16:parameters-reencode-differently", json!({"case": desc}));
                }
                compile_same(ev, &pp, &p2, d, seed, ci, &desc);
            }
            other => ev.violation("C16:parameters-own-bytes-rejected", json!({"case": desc, "got": format!("{:?}", other.map(|r| r.map(|_| ())))})),
        }
        let raw = pp.to_raw_var_bytes();
        let p3 = unsafe { PublicParameters::from_slice_unchecked(&raw) };
        if p3.to_raw_var_bytes() != raw || p3.to_var_bytes() != var {
            ev.violation("C16:raw-parameters-reencode-differently", json!({"case": desc}));
        }
        // checked raw decoder of the commit key
        let ck_raw = dv::pp_commit_key(&pp).to_raw_var_bytes();
        match guard(|| dv::CommitKeyT::from_raw_var_bytes(&ck_raw)) {
            Ok(Ok(ck)) => {
                if ck.to_raw_var_bytes() != ck_raw || ck.to_var_bytes() != dv::pp_commit_key(&pp).to_var_bytes() {
                    ev.violation("C16:commit-key-raw-reencodes-differently", json!({"case": desc}));
                }
            }
            other => ev.violation("C16:commit-key-own-raw-bytes-rejected", json!({"case": desc, "got": format!("{:?}", other.map(|r| r.map(|_| ())))})),
        }
        let ck_var = dv::pp_commit_key(&pp).to_var_bytes();
        match guard(|| dv::CommitKeyT::from_slice(&ck_var)) {
            Ok(Ok(ck)) => {
                if ck.to_var_bytes() != ck_var {
                    ev.violation("C16:commit-key-reencodes-differently", json!({"case": desc}));
                }
            }
            other => ev.violation("C16:commit-key-own-bytes-rejected", json!({"case": desc, "got": format!("{:?}", other.map(|r| r.map(|_| ())))})),
        }
        let ok_bytes = dv::opening_key_to_bytes(dv::pp_opening_key(&pp));
        match guard(|| dv::opening_key_from_slice(&ok_bytes)) {
            Ok(Ok(ok)) => {
                if dv::opening_key_to_bytes(&ok) != ok_bytes {
                    ev.violation("C16:opening-key-reencodes-differently", json!({"case": desc}));
                }
            }
            other => ev.violation("C16:opening-key-own-bytes-rejected", json!({"case": desc, "got": format!("{:?}", other.map(|r| r.map(|_| ())))})),
        }
    });
}

fn compile_same(ev: &Ev, a: &PublicParameters, b: &PublicParameters, d: usize, seed: u64, ci: u64, desc: &serde_json::Value) {
    // largest circuit the parameters admit (d is the setup degree)
    let m = crate::gen::cc::max_constraints(a.max_degree());
    if m < 6 {
        return;
    }
    let rows = m.min(300);
    let mut rng = case_rng(seed, "C16.pp.prog", ci);
    let bld = crate::gen::build::random_program(&mut rng, &GenCfg::all(), rows);
    let (prog, _) = bld.finish();
    let ca = common::compile(a, b"c16-pp", &prog);
    let cb = common::compile(b, b"c16-pp", &prog);
    match (ca, cb) {
        (Ok(x), Ok(y)) => {
            ev.bucket("pp_compile_compared");
            if x.prover.to_bytes() != y.prover.to_bytes() || x.verifier.to_bytes() != y.verifier.to_bytes() {
                ev.violation("C16:decoded-parameters-compile-differently", json!({"case": desc, "degree": d}));
            }
        }
        (x, y) => ev.violation("C16:compile-with-roundtripped-parameters-failed", json!({"case": desc,
            "original": x.err().map(|f: Fail| f.text()), "decoded": y.err().map(|f: Fail| f.text())})),
    }
}

fn proof_canonicity(ev: &Ev, tier: Tier, seed: u64) {
    let n = tier.pick(16u64, 200u64);
    par_cases(n, threads(), |ci| {
        let mut rng = case_rng(seed, "C16.canon", ci);
        let spec = match common::specimen(&mut rng, &GenCfg::all(), 8 + (ci as usize % 5) * 11, b"c16-canon") {
            Ok(s) => s,
            Err(e) => {
                ev.violation("C16:specimen-failed", json!({"error": e}));
                return;
            }
        };
        let base = &spec.proof_v3;
        for k in 0..tier.pick(200, 600) {
            let mut p = base.clone();
            let nm = 1 + rng.next_u32() % 2;
            let mut classes = Vec::new();
            for _ in 0..nm {
                let f = rng.next_u32() as usize % 26;
                if f < 11 {
                    let (c, b) = mutate::hostile_g1_compressed(&mut rng, &base[field_range(f)]);
                    p[field_range(f)].copy_from_slice(&b);
                    classes.push(format!("{}:{c}", PROOF_FIELDS[f]));
                    ev.set_insert("g1_mutations", c);
                } else {
                    let (c, b) = mutate::hostile_scalar(&mut rng, &base[field_range(f)]);
                    p[field_range(f)].copy_from_slice(&b);
                    classes.push(format!("{}:{c}", PROOF_FIELDS[f]));
                    ev.set_insert("scalar_mutations", c);
                }
            }
            let differs = p != *base;
            let r = guard(|| Proof::from_slice(&p));
            ev.bucket("proof_strings");
            let accepted = matches!(r, Ok(Ok(_)));
            ev.case_fp(&format!("canon:{ci}:{k}:{classes:?}:{accepted}"), differs);
            if ci == 0 && k < 3 {
                ev.sample(json!({"part": "proof-canonicity", "mutations": classes, "accepted": accepted}));
            }
            match r {
                Ok(Ok(pr)) => {
                    ev.bucket("proof_strings.accepted");
                    if pr.to_bytes()[..] != p[..] {
                        ev.violation(
                            &format!("C16:non-canonical-proof-accepted:{}", classes.iter().map(|c| c.split(':').nth(1).unwrap_or("")).collect::<Vec<_>>().join("+")),
                            json!({"mutations": classes, "input": hex::encode(&p), "reencoded": hex::encode(pr.to_bytes())}),
                        );
                    }
                }
                Ok(Err(_)) => ev.bucket("proof_strings.rejected"),
                Err(pn) => ev.violation(&format!("C16:proof-decoder-panicked:{}", panic_site(&pn)), json!({"mutations": classes, "input": hex::encode(&p)})),
            }
        }
    });
}
