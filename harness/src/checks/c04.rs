//! C04 — a proof binds its statement: public inputs, circuit, label, version.
//!
//! Metamorphic monitor on the real verifier: starting from an accepted
//! (proof, public inputs, verifier, version) every mismatched combination
//! must yield Err (never Ok, never a panic); the matched one stays Ok.

use std::sync::Arc;

use dusk_bls12_381::BlsScalar;
use dusk_bytes::DeserializableSlice;
use dusk_plonk::prelude::{PlonkVersion, Proof};
use rand_core::RngCore;
use serde_json::json;

use super::common::{self, Fail, Specimen};
use crate::gen::build::GenCfg;
use crate::gen::program::{Op, Pi, Program};
use crate::mon::evidence::{Ev, Tier};
use crate::mon::panic::panic_site;
use crate::mon::rng::case_rng;
use crate::refimpl::sat;
use crate::util::{par_cases, pool_scalar, rand_scalar, threads};

fn expect_reject(ev: &Ev, kind: &str, r: Result<(), Fail>, desc: serde_json::Value, really_differs: bool) {
    ev.case(&desc, really_differs);
    ev.bucket(&format!("kind.{kind}"));
    match r {
        Err(Fail::Err(_)) => ev.bucket("rejected"),
        Ok(()) => {
            if really_differs {
                ev.violation(&format!("C04:mismatch-accepted:{kind}"), json!({"case": desc}));
            } else {
                ev.bucket("identical-statement-accepted");
            }
        }
        Err(Fail::Panic(p)) => ev.violation(&format!("C04:verifier-panicked:{kind}:{}", panic_site(&p)), json!({"case": desc, "panic": p})),
    }
}

/// Near-miss variants of a program (same inputs still index correctly).
fn near_misses(p: &Program, rng: &mut impl RngCore) -> Vec<(String, Program)> {
    let mut out = Vec::new();
    let n = p.ops.len();
    // one selector value
    let gates: Vec<usize> = (0..n).filter(|i| matches!(p.ops[*i], Op::Gate { .. } | Op::GateAdd { .. } | Op::GateMul { .. } | Op::EvalOut { .. })).collect();
    for _ in 0..3 {
        if gates.is_empty() {
            break;
        }
        let i = gates[rng.next_u32() as usize % gates.len()];
        let mut q = p.clone();
        let k = rng.next_u32() as usize % 6;
        match &mut q.ops[i] {
            Op::Gate { s, .. } | Op::GateAdd { s, .. } | Op::GateMul { s, .. } | Op::EvalOut { s, .. } => {
                s[k] += BlsScalar::one();
            }
            _ => {}
        }
        out.push((format!("selector[{k}]+1@op{i}"), q));
    }
    // one wire
    let wired: Vec<usize> = (0..n).filter(|i| matches!(p.ops[*i], Op::Gate { .. } | Op::AssertEq(..) | Op::Select(..) | Op::SelectZero(..) | Op::SelectOne(..))).collect();
    for _ in 0..3 {
        if wired.is_empty() {
            break;
        }
        let i = wired[rng.next_u32() as usize % wired.len()];
        let mut q = p.clone();
        match &mut q.ops[i] {
            Op::Gate { w, .. } => {
                let k = rng.next_u32() as usize % 4;
                w[k] = if w[k] == 0 { 1 } else { 0 };
            }
            Op::AssertEq(a, _) | Op::Select(a, _, _) | Op::SelectZero(a, _) | Op::SelectOne(a, _) => {
                *a = if *a == 0 { 1 } else { 0 };
            }
            _ => {}
        }
        out.push((format!("wire@op{i}"), q));
    }
    // public input moved to / removed from an op
    let with_pi: Vec<usize> = (0..n)
        .filter(|i| matches!(&p.ops[*i], Op::Gate { pi, .. } | Op::AssertEqConst(_, _, pi) if *pi != Pi::None))
        .collect();
    if let Some(&i) = with_pi.first() {
        let mut q = p.clone();
        match &mut q.ops[i] {
            Op::Gate { pi, .. } | Op::AssertEqConst(_, _, pi) => *pi = Pi::None,
            _ => {}
        }
        out.push((format!("pi-removed@op{i}"), q));
    }
    let without_pi: Vec<usize> = (0..n).filter(|i| matches!(&p.ops[*i], Op::Gate { pi, .. } if *pi == Pi::None)).collect();
    if let Some(&i) = without_pi.first() {
        let mut q = p.clone();
        if let Op::Gate { pi, .. } = &mut q.ops[i] {
            *pi = Pi::Const(BlsScalar::zero());
        }
        out.push((format!("zero-pi-added@op{i}"), q));
    }
    // one row more / fewer
    {
        let mut q = p.clone();
        q.ops.push(Op::AssertEq(0, 0));
        out.push(("one-row-more".into(), q));
        let mut q = p.clone();
        if matches!(q.ops.last(), Some(Op::AssertEq(..)) | Some(Op::Gate { .. }) | Some(Op::AssertEqConst(..)) | Some(Op::Boolean(_))) {
            q.ops.pop();
            out.push(("one-row-fewer".into(), q));
        }
    }
    // two adjacent ops swapped (same multiset of rows, different order)
    if n >= 2 {
        for _ in 0..2 {
            let i = rng.next_u32() as usize % (n - 1);
            let independent = matches!(p.ops[i], Op::AssertEq(..) | Op::Gate { .. } | Op::Boolean(_) | Op::AssertEqConst(..))
                && matches!(p.ops[i + 1], Op::AssertEq(..) | Op::Gate { .. } | Op::Boolean(_) | Op::AssertEqConst(..));
            if independent {
                let mut q = p.clone();
                q.ops.swap(i, i + 1);
                out.push((format!("rows-swapped@op{i}"), q));
            }
        }
    }
    out
}

pub fn run(tier: Tier, seed: u64) -> i32 {
    let ev = Ev::new("C04", tier, seed);
    ev.set_rule(
        "cases = one accepted (proof, public inputs, verifier, version) and a mismatched partner: every \
         public-input position x {+1, 0, negated, random}, swaps, permutations, truncations and extensions; \
         verifiers of near-miss circuits (one selector, one wire, one public-input row, one row more/fewer, \
         swapped rows); labels differing in a byte / in length / empty; all proof-version x verify-version \
         pairs available from the real prover (V2, V3 proofs x V1, V2, V3 verification); non-trivial = the \
         mismatched statement really differs in bytes; distinct = fingerprint of the case descriptor",
    );
    ev.assume("V1 proofs cannot be produced by the real prover (UnsupportedProvingVersion); they come from the naive prover R-PRV (circuits with n <= 64)");
    let n_spec = tier.pick(30u64, 200u64);
    par_cases(n_spec, threads(), |si| {
        let mut rng = case_rng(seed, "C04", si);
        let rows = [8usize, 12, 16, 31, 32, 40, 64, 100, 129, 250][si as usize % 10];
        let mut cfg = GenCfg::all();
        cfg.heavy = false;
        let label: Vec<u8> = (0..(1 + rng.next_u32() as usize % 24)).map(|_| rng.next_u32() as u8).collect();
        // make sure there are several public inputs
        let mut s: Option<Specimen> = None;
        for attempt in 0..8u64 {
            let mut r2 = case_rng(seed, "C04.spec", si * 16 + attempt);
            match common::specimen(&mut r2, &cfg, rows, &label) {
                Ok(sp) => {
                    if sp.pi.len() >= 2 || attempt == 7 {
                        s = Some(sp);
                        break;
                    }
                }
                Err(e) => {
                    ev.violation(&format!("C04:specimen-failed:{}", e.chars().take(40).collect::<String>()), json!({"error": e}));
                    return;
                }
            }
        }
        let s = s.unwrap();
        let proof3 = Proof::from_slice(&s.proof_v3).unwrap();
        let proof2 = Proof::from_slice(&s.proof_v2).unwrap();
        let v = &s.compiled.verifier;
        // the matched combination stays Ok
        for (pv, proof) in [(PlonkVersion::V3, &proof3), (PlonkVersion::V2, &proof2)] {
            ev.case(&json!({"kind": "matched", "spec": si, "version": format!("{pv:?}")}), true);
            match common::verify(v, proof, &s.pi, pv) {
                Ok(()) => ev.bucket("matched-accepted"),
                Err(f) => ev.violation("C04:matched-combination-rejected", json!({"spec": si, "version": format!("{pv:?}"), "error": f.text(), "ops": s.prog.tags()})),
            }
        }
        // ---- versions ------------------------------------------------------
        for (pv, proof) in [(PlonkVersion::V3, &proof3), (PlonkVersion::V2, &proof2)] {
            for vv in [PlonkVersion::V1, PlonkVersion::V2, PlonkVersion::V3] {
                if pv == vv {
                    continue;
                }
                ev.set_insert("version_pairs", format!("{pv:?}->{vv:?}"));
                expect_reject(&ev, "version", common::verify(v, proof, &s.pi, vv), json!({"spec": si, "proof": format!("{pv:?}"), "verify": format!("{vv:?}")}), true);
            }
        }
        // ---- V1 proofs (only the naive prover can produce them; n <= 64) -----------
        if s.rows.next_power_of_two() <= 64 {
            use crate::refimpl::{kzg as rk, prover as rp, verifier as rv};
            let ppx = crate::util::pp(common::min_degree(s.rows));
            if let (Some(key), Some(srs), Ok(vk), Ok((inst, _))) = (
                rp::KeyPolys::from_prover_bytes(&s.compiled.prover.to_bytes()),
                rk::parse_srs(&ppx.to_var_bytes()),
                rv::parse_verifier(&s.vbytes),
                common::build_instance(&s.prog, &s.inputs, &[]),
            ) {
                let wires = sat::wires_of(&inst);
                let bl = rp::Blinders {
                    wires: core::array::from_fn(|_| [rand_scalar(&mut rng), rand_scalar(&mut rng)]),
                    perm: [rand_scalar(&mut rng), rand_scalar(&mut rng), rand_scalar(&mut rng)],
                    quotient: [rand_scalar(&mut rng), rand_scalar(&mut rng), rand_scalar(&mut rng)],
                };
                if let Some(p1) = rp::prove(&key, &srs.powers, &vk, &wires, &s.pi, &bl, rv::Version::V1) {
                    if let Ok(proof1) = Proof::from_slice(&p1) {
                        ev.case(&json!({"kind": "matched", "spec": si, "version": "V1 (naive prover)"}), true);
                        match common::verify(v, &proof1, &s.pi, PlonkVersion::V1) {
                            Ok(()) => ev.bucket("matched-accepted-v1"),
                            Err(f) => ev.violation("C04:matched-combination-rejected:V1", json!({"spec": si, "error": f.text()})),
                        }
                        for vv in [PlonkVersion::V2, PlonkVersion::V3] {
                            ev.set_insert("version_pairs", format!("V1->{vv:?}"));
                            expect_reject(&ev, "version", common::verify(v, &proof1, &s.pi, vv), json!({"spec": si, "proof": "V1", "verify": format!("{vv:?}")}), true);
                        }
                    }
                }
            }
        }
        // ---- public inputs -------------------------------------------------
        let n = s.pi.len();
        for k in 0..n {
            let mut alts = vec![("+1", s.pi[k] + BlsScalar::one()), ("zero", BlsScalar::zero()), ("negated", -s.pi[k]), ("random", rand_scalar(&mut rng)), ("pool", pool_scalar(&mut rng))];
            alts.retain(|(_, x)| *x != s.pi[k]);
            for (name, x) in alts {
                let mut p = s.pi.clone();
                p[k] = x;
                expect_reject(&ev, "pi-value", common::verify(v, &proof3, &p, PlonkVersion::V3), json!({"spec": si, "pos": k, "alt": name}), true);
            }
            if k + 1 < n && s.pi[k] != s.pi[k + 1] {
                let mut p = s.pi.clone();
                p.swap(k, k + 1);
                expect_reject(&ev, "pi-swap", common::verify(v, &proof3, &p, PlonkVersion::V3), json!({"spec": si, "pos": k}), true);
            }
        }
        for _ in 0..tier.pick(5, 20) {
            let mut p = s.pi.clone();
            for i in (1..p.len()).rev() {
                p.swap(i, rng.next_u32() as usize % (i + 1));
            }
            if p != s.pi {
                expect_reject(&ev, "pi-permutation", common::verify(v, &proof3, &p, PlonkVersion::V3), json!({"spec": si}), true);
            }
        }
        for d in 1..=3usize {
            if n >= d {
                let p = s.pi[..n - d].to_vec();
                expect_reject(&ev, "pi-truncated", common::verify(v, &proof3, &p, PlonkVersion::V3), json!({"spec": si, "by": d}), true);
                let p = s.pi[d..].to_vec();
                expect_reject(&ev, "pi-truncated-front", common::verify(v, &proof3, &p, PlonkVersion::V3), json!({"spec": si, "by": d}), true);
            }
            let mut p = s.pi.clone();
            for _ in 0..d {
                p.push(if d == 1 { BlsScalar::zero() } else { pool_scalar(&mut rng) });
            }
            expect_reject(&ev, "pi-extended", common::verify(v, &proof3, &p, PlonkVersion::V3), json!({"spec": si, "by": d}), true);
        }
        // ---- labels ----------------------------------------------------------
        let pp = crate::util::pp(common::min_degree(s.rows));
        let mut labels: Vec<(String, Vec<u8>)> = Vec::new();
        {
            let mut l = s.label.clone();
            let i = rng.next_u32() as usize % l.len();
            l[i] ^= 1 << (rng.next_u32() % 8);
            labels.push(("one-bit".into(), l));
            let mut l = s.label.clone();
            l.push(0);
            labels.push(("extended-by-zero-byte".into(), l));
            let mut l = s.label.clone();
            l.pop();
            labels.push(("truncated".into(), l));
            labels.push(("empty".into(), Vec::new()));
            // long labels: every byte and the length must count, also past
            // 32 / 64 / 255 bytes (the matched long label must still verify:
            // see `long_base` below)
            for (name, base_len) in [("long-80", 80usize), ("long-64", 64), ("long-300", 300)] {
                let base: Vec<u8> = (0..base_len).map(|i| b'a' + (i % 23) as u8).collect();
                let mut last = base.clone();
                *last.last_mut().unwrap() ^= 1;
                let mut longer = base.clone();
                longer.push(b'z');
                labels.push((format!("{name}:base"), base));
                labels.push((format!("{name}:last-byte"), last));
                labels.push((format!("{name}:one-byte-longer"), longer));
            }
            let mut l = s.label.clone();
            l.extend_from_slice(&s.label);
            labels.push(("doubled".into(), l));
        }
        for (name, l) in labels {
            if l == s.label {
                continue;
            }
            match common::compile(&pp, &l, &s.prog) {
                Ok(c2) => {
                    expect_reject(&ev, "label", common::verify(&c2.verifier, &proof3, &s.pi, PlonkVersion::V3), json!({"spec": si, "label": name}), true);
                    expect_reject(&ev, "label-v2", common::verify(&c2.verifier, &proof2, &s.pi, PlonkVersion::V2), json!({"spec": si, "label": name}), true);
                }
                Err(f) => ev.violation("C04:compile-failed-for-label", json!({"label": name, "error": f.text()})),
            }
        }
        // ---- long labels: proof made under the long label itself -------------
        for base_len in [33usize, 64, 65, 80, 255, 256, 300] {
            if si % 3 != 0 {
                break;
            }
            let base: Vec<u8> = (0..base_len).map(|i| b'a' + ((i + si as usize) % 23) as u8).collect();
            let Ok(cb) = common::compile(&pp, &base, &s.prog) else {
                ev.violation("C04:compile-failed-for-label", json!({"label_len": base_len}));
                continue;
            };
            let mut prng = case_rng(seed, "C04.longlabel", si as u64 * 1000 + base_len as u64);
            let Ok((lproof, lpi)) = common::prove(&cb.prover, &s.prog, &s.inputs, &[], &mut prng, PlonkVersion::V3).result else {
                ev.violation("C04:prove-failed-under-long-label", json!({"label_len": base_len}));
                continue;
            };
            ev.case(&json!({"kind": "matched", "spec": si, "label_len": base_len}), true);
            if let Err(f) = common::verify(&cb.verifier, &lproof, &lpi, PlonkVersion::V3) {
                ev.violation("C04:matched-combination-rejected:long-label", json!({"label_len": base_len, "error": f.text()}));
            }
            let mut variants: Vec<(&str, Vec<u8>)> = Vec::new();
            let mut v = base.clone();
            *v.last_mut().unwrap() ^= 1;
            variants.push(("last-byte", v));
            let mut v = base.clone();
            v.push(b'z');
            variants.push(("one-byte-longer", v));
            let mut v = base.clone();
            v.pop();
            variants.push(("one-byte-shorter", v));
            let mut v = base.clone();
            v[base_len / 2] ^= 0x20;
            variants.push(("middle-byte", v));
            for (name, l) in variants {
                match common::compile(&pp, &l, &s.prog) {
                    Ok(c2) => {
                        ev.bucket("long_label_mismatches");
                        expect_reject(&ev, "label", common::verify(&c2.verifier, &lproof, &lpi, PlonkVersion::V3), json!({"spec": si, "label": format!("long-{base_len}:{name}")}), true);
                    }
                    Err(f) => ev.violation("C04:compile-failed-for-label", json!({"label": name, "error": f.text()})),
                }
            }
        }
        // ---- near-miss circuits ----------------------------------------------
        let base_canon = sat::canonical(&s.compiled.layout);
        for (name, q) in near_misses(&s.prog, &mut rng) {
            let q = Arc::new(q);
            let pp2 = crate::util::pp(common::min_degree(s.rows + 1));
            match common::compile(&pp2, &s.label, &q) {
                Ok(c2) => {
                    let differs = c2.verifier.to_bytes() != s.vbytes;
                    let canon_differs = sat::canonical(&c2.layout) != base_canon;
                    ev.set_insert("near_miss_kinds", name.split('@').next().unwrap().split('[').next().unwrap());
                    if canon_differs && !differs {
                        ev.violation(&format!("C04:different-circuits-same-verifier-bytes:{}", name.split('@').next().unwrap()),
                            json!({"spec": si, "near_miss": name, "difference": sat::canon_diff(&base_canon, &sat::canonical(&c2.layout))}));
                    }
                    let pi_ok = c2.layout.public_inputs.len() == s.pi.len();
                    let pi: Vec<BlsScalar> = if pi_ok { s.pi.clone() } else {
                        // present as many inputs as the other verifier expects
                        let mut p = s.pi.clone();
                        p.resize(c2.layout.public_inputs.len(), BlsScalar::zero());
                        p
                    };
                    expect_reject(&ev, "near-miss-circuit", common::verify(&c2.verifier, &proof3, &pi, PlonkVersion::V3),
                        json!({"spec": si, "near_miss": name, "verifier_bytes_differ": differs}), differs);
                }
                Err(_) => ev.bucket("near-miss-did-not-compile"),
            }
        }
    });
    ev.floor("matched accepted", ev.bucket_get("matched-accepted"), 2 * n_spec);
    ev.floor("rejected mismatches", ev.bucket_get("rejected"), tier.pick(400, 3000));
    ev.floor("version pairs", ev.set_len("version_pairs") as u64, 6);
    ev.floor("V1 proofs accepted by V1 verification", ev.bucket_get("matched-accepted-v1"), 3);
    ev.floor("near-miss kinds", ev.set_len("near_miss_kinds") as u64, 5);
    ev.floor("label mismatches", ev.bucket_get("kind.label"), 3 * n_spec);
    ev.floor("mismatches among labels of 33..300 bytes (proof made under the long label)", ev.bucket_get("long_label_mismatches"), 20);
    ev.finish()
}
