//! C18 — compilation and proving are deterministic and schedule-independent.
//!
//! Every scenario yields digests of (prover bytes, verifier bytes, proof
//! bytes, public inputs); all digests of one circuit must coincide across
//! repeats, fresh processes (fresh hash seeds), rayon pool sizes, injected
//! scheduling delays, concurrent use of shared keys and the alloc-only build.

use std::sync::Arc;

use dusk_bls12_381::BlsScalar;
use dusk_bytes::Serializable;
use dusk_plonk::prelude::PlonkVersion;
use rand_core::RngCore;
use serde_json::json;

use super::common;
use crate::gen::build::{self, GenCfg};
use crate::gen::program::{Inputs, Program, HC};
use crate::mon::evidence::{Ev, Tier};
use crate::mon::panic::guard;
use crate::mon::rng::{case_rng, ScriptedRng};
use crate::util::{blake_hex, rand_scalar};

#[derive(Clone, Debug, PartialEq, Eq)]
pub struct Digests {
    pub prover: String,
    pub verifier: String,
    pub proof: String,
}

impl Digests {
    fn line(&self) -> String {
        format!("{} {} {}", self.prover, self.verifier, self.proof)
    }
}

fn program_for(seed: u64, idx: u64, rows: usize) -> (Arc<Program>, Inputs) {
    let mut rng = case_rng(seed, "C18.prog", idx);
    let mut cfg = GenCfg::all();
    cfg.heavy = rows >= 2000;
    let b = build::random_program(&mut rng, &cfg, rows);
    b.finish()
}

/// Labels of the main circuits: longer than 32 bytes with a long common
/// prefix, so that anything that identifies a label by less than all of its
/// bytes makes this process (which uses several of them) differ from a fresh
/// process that uses one.
fn label_for(idx: u64) -> String {
    format!("dusk-plonk/verif/c18/determinism-and-history/circuit-{idx}")
}

fn script_for(seed: u64, idx: u64, job: u64) -> Vec<BlsScalar> {
    let mut rng = case_rng(seed, "C18.script", idx * 1000 + job);
    (0..14).map(|_| rand_scalar(&mut rng)).collect()
}

/// compile + prove (scripted randomness) and digest everything
fn run_once(prog: &Arc<Program>, inputs: &Inputs, label: &[u8], script: &[BlsScalar], rows: usize) -> Result<Digests, String> {
    let pp = crate::util::pp(common::min_degree(rows));
    let c = common::compile(&pp, label, prog).map_err(|f| f.text())?;
    let hc = HC::new(prog.clone(), inputs.clone());
    let r = guard(|| c.prover.prove_with_version(&mut ScriptedRng::new(script), &hc, PlonkVersion::V3));
    let (proof, pi) = match r {
        Ok(Ok(x)) => x,
        Ok(Err(e)) => return Err(format!("prove: {e:?}")),
        Err(p) => return Err(format!("prove panicked: {p}")),
    };
    let mut pb = proof.to_bytes().to_vec();
    for x in &pi {
        pb.extend_from_slice(&x.to_bytes());
    }
    Ok(Digests { prover: blake_hex(&c.prover.to_bytes()), verifier: blake_hex(&c.verifier.to_bytes()), proof: blake_hex(&pb) })
}

/// `vh C18 --sub child:<seed>:<idx>:<rows>` — one scenario in a fresh process.
pub fn child(sub: &str) -> i32 {
    let parts: Vec<&str> = sub.split(':').collect();
    if parts.len() != 4 {
        eprintln!("bad child spec");
        return 2;
    }
    let seed: u64 = parts[1].parse().unwrap_or(1);
    let idx: u64 = parts[2].parse().unwrap_or(0);
    let rows: usize = parts[3].parse().unwrap_or(16);
    let (prog, inputs) = program_for(seed, idx, rows);
    match run_once(&prog, &inputs, label_for(idx).as_bytes(), &script_for(seed, idx, 0), rows) {
        Ok(d) => {
            println!("DIGEST {}", d.line());
            0
        }
        Err(e) => {
            println!("CHILD-ERROR {e}");
            3
        }
    }
}

fn spawn_child(exe: &str, seed: u64, idx: u64, rows: usize) -> Result<String, String> {
    let out = std::process::Command::new(exe)
        .args(["C18", "--sub", &format!("child:{seed}:{idx}:{rows}")])
        .output()
        .map_err(|e| format!("spawn {exe}: {e}"))?;
    let text = String::from_utf8_lossy(&out.stdout).to_string();
    for l in text.lines() {
        if let Some(d) = l.strip_prefix("DIGEST ") {
            return Ok(d.to_string());
        }
    }
    Err(format!("child gave no digest: status {:?} stdout {:?} stderr {:?}", out.status, text, String::from_utf8_lossy(&out.stderr)))
}

#[cfg(not(feature = "plonk-std"))]
pub fn run(tier: Tier, seed: u64) -> i32 {
    let _ = (tier, seed, rand_scalar::<rand_chacha::ChaCha20Rng>, json!(0));
    eprintln!("C18 must be driven from the std build; this build only serves child scenarios");
    2
}

#[cfg(feature = "plonk-std")]
pub fn run(tier: Tier, seed: u64) -> i32 {
    use crate::mon::sched;
    use dusk_plonk::prelude::{Proof, Prover, Verifier};
    let ev = Ev::new("C18", tier, seed);
    ev.set_rule(
        "cases = (circuit, scenario): D1 repeats in one process, D2 fresh child processes, D3 private rayon pools of \
         many sizes (half with seeded delays injected at the work-item hooks), D4 16 OS threads sharing one prover \
         and verifier (prove / verify / compile under distinct labels) vs the same jobs sequentially, D5 the \
         alloc-only (serial) build, D6 all jobs one after another on one thread in descending-then-ascending size \
         order (history of a thread); each yields blake2b digests of prover, verifier and proof+public-input bytes \
         which must equal the baseline; non-trivial = circuit takes a parallel path (8n >= 2^12); distinct = \
         fingerprint of (circuit, scenario, parameters)",
    );
    ev.assume("the scripted RNG hands the same 14 scalars to every run of one job");
    sched::install();
    let self_exe = std::env::var("VH_SELF").ok().or_else(|| std::env::current_exe().ok().map(|p| p.display().to_string())).unwrap();
    let nostd_exe = std::env::var("VH_NOSTD").ok().filter(|p| std::path::Path::new(p).exists());
    if nostd_exe.is_none() {
        ev.inconclusive("alloc-only harness binary not available (VH_NOSTD); D5 not run");
    }
    // 512 and 4096 rows fill their domain exactly (no padding rows: the last
    // rows are active), the other sizes are padded
    let sizes: Vec<usize> = tier.pick(vec![300, 512, 2100], vec![250, 300, 512, 520, 2100, 4096, 4100, 8200]);
    let pools: Vec<usize> = tier.pick(vec![1, 2, 3, 4, 5, 6, 7, 8, 12, 16, 17], vec![1, 2, 3, 4, 5, 6, 7, 8, 9, 12, 15, 16, 17, 24, 32]);
    let n_children = tier.pick(4, 8);
    let mut kept: Vec<(Arc<Program>, Inputs, String, Vec<BlsScalar>, usize, Digests)> = Vec::new();
    for (idx, &rows) in sizes.iter().enumerate() {
        let idx = idx as u64;
        let (prog, inputs) = program_for(seed, idx, rows);
        let label = label_for(idx);
        let script = script_for(seed, idx, 0);
        let parallel = 8 * rows.next_power_of_two() >= 4096;
        let base = match run_once(&prog, &inputs, label.as_bytes(), &script, rows) {
            Ok(d) => d,
            Err(e) => {
                ev.violation("C18:baseline-run-failed", json!({"rows": rows, "error": e}));
                continue;
            }
        };
        kept.push((prog.clone(), inputs.clone(), label.clone(), script.clone(), rows, Digests { prover: base.prover.clone(), verifier: base.verifier.clone(), proof: base.proof.clone() }));
        let compare = |scenario: &str, param: String, got: Result<Digests, String>| {
            let desc = json!({"rows": rows, "scenario": scenario, "param": param});
            ev.case(&desc, parallel);
            ev.bucket(&format!("scenario.{scenario}"));
            match got {
                Ok(d) => {
                    let mut diff = Vec::new();
                    if d.prover != base.prover {
                        diff.push("prover-bytes");
                    }
                    if d.verifier != base.verifier {
                        diff.push("verifier-bytes");
                    }
                    if d.proof != base.proof {
                        diff.push("proof-bytes");
                    }
                    if !diff.is_empty() {
                        ev.violation(&format!("C18:{scenario}:{}-differ", diff.join("+")), json!({"case": desc, "ops": prog.ops.len()}));
                    }
                }
                Err(e) => ev.violation(&format!("C18:{scenario}:run-failed"), json!({"case": desc, "error": e})),
            }
        };
        // D1
        for k in 0..2 {
            compare("D1-repeat", k.to_string(), run_once(&prog, &inputs, label.as_bytes(), &script, rows));
        }
        // D3 pools (+ delays)
        for &p in &pools {
            let pool = rayon::ThreadPoolBuilder::new().num_threads(p).build().unwrap();
            for delay in [false, true] {
                if delay && tier == Tier::Quick && (rows > 2500 || ![2usize, 3, 5, 7, 12, 17].contains(&p)) {
                    continue;
                }
                let observe = rows <= 2500;
                if observe {
                    sched::start(if delay { seed.wrapping_mul(31).wrapping_add(p as u64) | 1 } else { 0 });
                }
                let r = pool.install(|| run_once(&prog, &inputs, label.as_bytes(), &script, rows));
                if observe {
                    let obs = sched::stop();
                    ev.bucket_add("sched.events", obs.events as u64);
                    for (site, (n, threads, assign, order)) in obs.sites {
                        ev.set_insert(&format!("sched.assignments@{site}"), format!("{assign:x}"));
                        ev.set_insert(&format!("sched.orders@{site}"), format!("{order:x}"));
                        ev.set_insert(&format!("sched.threads@{site}"), threads);
                        ev.bucket_add(&format!("sched.events@{site}"), n as u64);
                    }
                }
                ev.set_insert("pools", p);
                compare("D3-pool", format!("threads={p} delays={delay}"), r);
            }
        }
        // D2 fresh processes
        let mut handles = Vec::new();
        for k in 0..n_children {
            let exe = self_exe.clone();
            handles.push(std::thread::spawn(move || (k, spawn_child(&exe, seed, idx, rows))));
        }
        for h in handles {
            let (k, r) = h.join().unwrap();
            let r = r.map(|l| {
                let v: Vec<&str> = l.split(' ').collect();
                Digests { prover: v[0].into(), verifier: v[1].into(), proof: v[2].into() }
            });
            compare("D2-fresh-process", k.to_string(), r);
        }
        // D5 alloc-only build
        if let Some(exe) = &nostd_exe {
            let r = spawn_child(exe, seed, idx, rows).map(|l| {
                let v: Vec<&str> = l.split(' ').collect();
                Digests { prover: v[0].into(), verifier: v[1].into(), proof: v[2].into() }
            });
            compare("D5-alloc-only-build", "serial".into(), r);
        }
        // D4 shared keys, concurrent use
        {
            let pp = crate::util::pp(common::min_degree(rows));
            let Ok(c) = common::compile(&pp, label.as_bytes(), &prog) else { continue };
            let prover: Arc<Prover> = Arc::new(c.prover);
            let verifier: Arc<Verifier> = Arc::new(c.verifier);
            let n_threads = 16u64;
            let jobs_per = tier.pick(2u64, 4u64);
            // sequential reference
            let job = |j: u64, prover: &Prover, verifier: &Verifier| -> Result<(String, bool, String), String> {
                let hc = HC::new(prog.clone(), inputs.clone());
                let script = script_for(seed, idx, 100 + j);
                let (proof, pi) = match guard(|| prover.prove(&mut ScriptedRng::new(&script), &hc)) {
                    Ok(Ok(x)) => x,
                    other => return Err(format!("prove: {:?}", other.map(|r| r.map(|_| ())))),
                };
                let ok = verifier.verify(&proof, &pi).is_ok();
                // a mutated proof must be rejected by the shared verifier too
                let mut bad = proof.to_bytes();
                bad[600] ^= 1;
                let bad_ok = Proof::from_bytes(&bad).map(|p| verifier.verify(&p, &pi).is_ok()).unwrap_or(false);
                // concurrent compile under a distinct label (label cache)
                let l = format!("dusk-plonk/verif/c18/concurrent-compile/label-{idx}-{j}");
                let small = build_small(seed, j);
                let spp = crate::util::pp(32);
                let keys = common::compile(&spp, l.as_bytes(), &small).map(|c| blake_hex(&c.verifier.to_bytes())).map_err(|f| f.text())?;
                Ok((blake_hex(&proof.to_bytes()), ok && !bad_ok, keys))
            };
            let total = n_threads * jobs_per;
            // The concurrent phase comes FIRST and runs on keys that have never
            // been used (freshly decoded from bytes), with all threads released
            // together, so that lazily initialised state inside the keys is
            // first touched concurrently. The sequential reference is taken
            // afterwards on another fresh decode.
            let pbytes = prover.to_bytes();
            let vbytes = verifier.to_bytes();
            let fresh = || -> Option<(Arc<Prover>, Arc<Verifier>)> {
                Some((Arc::new(Prover::try_from_bytes(&pbytes).ok()?), Arc::new(Verifier::try_from_bytes(&vbytes).ok()?)))
            };
            let Some((cprover, cverifier)) = fresh() else {
                ev.violation("C18:D4-shared-keys:own-bytes-rejected", json!({"rows": rows}));
                continue;
            };
            let conc: Vec<std::sync::Mutex<Option<Result<(String, bool, String), String>>>> = (0..total).map(|_| std::sync::Mutex::new(None)).collect();
            let barrier = std::sync::Barrier::new(n_threads as usize);
            std::thread::scope(|s| {
                for t in 0..n_threads {
                    let (prover, verifier, conc, job, barrier) = (&cprover, &cverifier, &conc, &job, &barrier);
                    s.spawn(move || {
                        barrier.wait();
                        for k in 0..jobs_per {
                            let j = t * jobs_per + k;
                            *conc[j as usize].lock().unwrap() = Some(job(j, prover, verifier));
                        }
                    });
                }
            });
            let Some((sprover, sverifier)) = fresh() else { continue };
            let seq: Vec<_> = (0..total).map(|j| job(j, &sprover, &sverifier)).collect();
            for j in 0..total {
                let c = conc[j as usize].lock().unwrap().take().unwrap();
                let desc = json!({"rows": rows, "scenario": "D4-shared-keys", "job": j});
                ev.case(&desc, parallel);
                ev.bucket("scenario.D4-shared-keys");
                match (&seq[j as usize], &c) {
                    (Ok(a), Ok(b)) => {
                        if a != b {
                            ev.violation("C18:D4-shared-keys:concurrent-result-differs-from-sequential", json!({"case": desc, "sequential": format!("{a:?}"), "concurrent": format!("{b:?}")}));
                        }
                        if !a.1 || !b.1 {
                            ev.violation("C18:D4-shared-keys:wrong-verification-result", json!({"case": desc}));
                        }
                    }
                    (a, b) => ev.violation("C18:D4-shared-keys:job-failed", json!({"case": desc, "sequential": format!("{a:?}"), "concurrent": format!("{b:?}")})),
                }
            }
        }
    }
    // D6 history of a thread: the same jobs (plus small extra circuits of other
    // sizes), run one after another on ONE fresh OS thread / one rayon worker in
    // descending-then-ascending size order, must give what each gave on its
    // own - nothing a thread did before may leak into a later key or proof
    {
        let mut jobs: Vec<(Arc<Program>, Inputs, String, Vec<BlsScalar>, usize, Digests)> = Vec::new();
        for (k, rows) in [(90u64, 40usize), (91, 9), (92, 130)] {
            let (prog, inputs) = program_for(seed, k, rows);
            let label = label_for(k);
            let script = script_for(seed, k, 0);
            match std::thread::scope(|s| s.spawn(|| run_once(&prog, &inputs, label.as_bytes(), &script, rows)).join().unwrap()) {
                Ok(d) => jobs.push((prog, inputs, label, script, rows, d)),
                Err(e) => ev.violation("C18:baseline-run-failed", json!({"rows": rows, "error": e})),
            }
        }
        jobs.extend(kept.into_iter().filter(|j| j.4 <= 2500 || tier == Tier::Thorough));
        jobs.sort_by_key(|j| std::cmp::Reverse(j.4));
        let mut order: Vec<usize> = (0..jobs.len()).collect();
        order.extend((0..jobs.len()).rev());
        let run_order = |who: &str, runner: &dyn Fn(&(dyn Fn() -> Vec<Result<Digests, String>> + Sync)) -> Vec<Result<Digests, String>>| {
            let body = || -> Vec<Result<Digests, String>> { order.iter().map(|&i| run_once(&jobs[i].0, &jobs[i].1, jobs[i].2.as_bytes(), &jobs[i].3, jobs[i].4)).collect() };
            let got = runner(&body);
            for (pos, (&i, g)) in order.iter().zip(got).enumerate() {
                let desc = json!({"rows": jobs[i].4, "scenario": "D6-thread-history", "where": who, "position": pos,
                    "previous_rows": if pos > 0 { Some(jobs[order[pos - 1]].4) } else { None }});
                ev.case(&desc, true);
                ev.bucket("scenario.D6-thread-history");
                match g {
                    Ok(d) => {
                        let b = &jobs[i].5;
                        let mut diff = Vec::new();
                        if d.prover != b.prover {
                            diff.push("prover-bytes");
                        }
                        if d.verifier != b.verifier {
                            diff.push("verifier-bytes");
                        }
                        if d.proof != b.proof {
                            diff.push("proof-bytes");
                        }
                        if !diff.is_empty() {
                            ev.violation(&format!("C18:D6-thread-history:{}-differ", diff.join("+")), json!({"case": desc}));
                        }
                    }
                    Err(e) => ev.violation("C18:D6-thread-history:run-failed", json!({"case": desc, "error": e})),
                }
            }
        };
        run_order("fresh-os-thread", &|body| std::thread::scope(|s| s.spawn(|| body()).join().unwrap()));
        for p in tier.pick(vec![2usize], vec![1usize, 2, 5]) {
            let pool = rayon::ThreadPoolBuilder::new().num_threads(p).build().unwrap();
            run_order(&format!("rayon-pool-of-{p}"), &|body| pool.install(|| body()));
        }
    }
    sanitizer_summary(&ev, "C18");
    ev.floor("thread-history jobs", ev.bucket_get("scenario.D6-thread-history"), 20);
    ev.floor("pool sizes", ev.set_len("pools") as u64, pools.len() as u64);
    ev.floor("fresh processes", ev.bucket_get("scenario.D2-fresh-process"), (n_children * sizes.len()) as u64);
    ev.floor("shared-key jobs", ev.bucket_get("scenario.D4-shared-keys"), 32);
    ev.floor("distinct item->thread assignments at the FFT site", ev.set_len("sched.assignments@fft.butterfly_range") as u64, 8);
    ev.floor("distinct item->thread assignments at the commit site", ev.set_len("sched.assignments@kzg.commit") as u64, 8);
    ev.finish()
}

/// Light parallel workload for the ThreadSanitizer build (`--sub sanitizer`):
/// pools 1/4/16 and 8 threads on shared keys; prints a summary, writes no
/// evidence (the instrumented run is judged by the sanitizer's report log).
#[cfg(feature = "plonk-std")]
pub fn sanitizer_workload(seed: u64) -> i32 {
    use dusk_plonk::prelude::{Prover, Verifier};
    let mut runs = 0u64;
    for (idx, rows) in [(0u64, 300usize), (1, 700)] {
        let (prog, inputs) = program_for(seed, idx, rows);
        let label = format!("c18-san-{idx}");
        let script = script_for(seed, idx, 0);
        let base = run_once(&prog, &inputs, label.as_bytes(), &script, rows);
        for p in [1usize, 4, 16] {
            let pool = rayon::ThreadPoolBuilder::new().num_threads(p).build().unwrap();
            let r = pool.install(|| run_once(&prog, &inputs, label.as_bytes(), &script, rows));
            runs += 1;
            if r != base {
                println!("SANITIZER-WORKLOAD digest mismatch at pool {p}");
                return 3;
            }
        }
        let pp = crate::util::pp(common::min_degree(rows));
        let Ok(c) = common::compile(&pp, label.as_bytes(), &prog) else { return 3 };
        let prover: Arc<Prover> = Arc::new(c.prover);
        let verifier: Arc<Verifier> = Arc::new(c.verifier);
        std::thread::scope(|s| {
            for t in 0..8u64 {
                let (prover, verifier, prog, inputs) = (&prover, &verifier, &prog, &inputs);
                s.spawn(move || {
                    let hc = HC::new(prog.clone(), inputs.clone());
                    let sc = script_for(seed, idx, 200 + t);
                    if let Ok((proof, pi)) = prover.prove(&mut ScriptedRng::new(&sc), &hc) {
                        let _ = verifier.verify(&proof, &pi);
                    }
                    let small = build_small(seed, t);
                    let spp = crate::util::pp(32);
                    let _ = common::compile(&spp, format!("c18-san-label-{t}").as_bytes(), &small);
                });
            }
        });
        runs += 8;
    }
    println!("SANITIZER-WORKLOAD C18 runs={runs}");
    0
}

#[cfg(feature = "plonk-std")]
fn build_small(seed: u64, j: u64) -> Arc<Program> {
    let mut rng = case_rng(seed, "C18.small", j % 4);
    let b = build::random_program(&mut rng, &GenCfg::arith_only(), 12);
    let _ = rng.next_u32();
    b.finish().0
}

/// Fold the result of the instrumented (ThreadSanitizer) run, which bin/check
/// performs before the thorough tier, into the evidence; any report is a
/// violation whose replay is the sanitizer log.
pub fn sanitizer_summary(ev: &Ev, id: &str) {
    for (name, key, prefix) in [("thread-sanitizer", "thread_sanitizer", "VH_TSAN"), ("address-sanitizer", "address_sanitizer", "VH_ASAN"), ("miri", "miri", "VH_MIRI")] {
        if let Ok(ran) = std::env::var(format!("{prefix}_RAN")) {
            let reports: u64 = std::env::var(format!("{prefix}_REPORTS")).ok().and_then(|s| s.parse().ok()).unwrap_or(0);
            let log = std::env::var(format!("{prefix}_LOG")).unwrap_or_default();
            ev.extra(key, json!({"workload": ran, "reports": reports, "log": log}));
            if reports > 0 {
                ev.violation(&format!("{id}:{name}-reports"), json!({"reports": reports, "log": log}));
            } else if ran != "ok" {
                // a secondary net that could not run is recorded, not turned
                // into a verdict on the property
                ev.extra(&format!("{key}_not_run"), json!(ran));
            }
        }
    }
}
