//! C19 — FFT and polynomial kernels equal their mathematical definitions.
//!
//! Oracle: the O(n^2) definitions in `refimpl::fft`, evaluated next to the
//! real kernels (reached through `dusk_plonk::verif` wrappers) on generated
//! vectors, sizes, lengths and rayon pool sizes.

use dusk_bls12_381::{BlsScalar, GENERATOR};
use dusk_plonk::verif as dv;
use rand_core::RngCore;
use serde_json::json;

use crate::mon::evidence::{Ev, Tier};
use crate::mon::panic::{guard, panic_site};
use crate::mon::rng::case_rng;
use crate::refimpl::fft as rf;
use crate::util::{hx, par_cases, pool_scalar, rand_scalar, threads};

#[derive(Clone, Copy, Debug)]
enum Kernel {
    Fft,
    Ifft,
    CosetFft,
    CosetIfft,
}

const KERNELS: [Kernel; 4] = [Kernel::Fft, Kernel::Ifft, Kernel::CosetFft, Kernel::CosetIfft];

fn vec_class(rng: &mut impl RngCore, class: u32, len: usize) -> Vec<BlsScalar> {
    match class {
        0 => vec![BlsScalar::zero(); len],
        1 => {
            // random with trailing zeros
            let mut v: Vec<_> = (0..len).map(|_| rand_scalar(rng)).collect();
            let z = if len > 0 { (rng.next_u32() as usize % len) + 1 } else { 0 };
            for x in v.iter_mut().rev().take(z.min(len / 2 + 1)) {
                *x = BlsScalar::zero();
            }
            v
        }
        2 => {
            // single spike
            let mut v = vec![BlsScalar::zero(); len];
            if len > 0 {
                let i = rng.next_u32() as usize % len;
                v[i] = pool_scalar(rng);
                if v[i] == BlsScalar::zero() {
                    v[i] = BlsScalar::one();
                }
            }
            v
        }
        3 => (0..len).map(|_| pool_scalar(rng)).collect(),
        _ => (0..len).map(|_| rand_scalar(rng)).collect(),
    }
}

fn class_name(c: u32) -> &'static str {
    ["zeros", "trailing-zeros", "spike", "pool", "random"][c as usize]
}

fn run_kernel(k: Kernel, size: usize, v: &[BlsScalar]) -> Result<Vec<BlsScalar>, String> {
    let r = guard(|| match k {
        Kernel::Fft => dv::fft(size, v),
        Kernel::Ifft => dv::ifft(size, v),
        Kernel::CosetFft => dv::coset_fft(size, v),
        Kernel::CosetIfft => dv::coset_ifft(size, v),
    })?;
    r.map_err(|e| format!("Err({e:?})"))
}

/// Reference value of output index i, or full vector.
fn reference_full(k: Kernel, size: usize, v: &[BlsScalar]) -> Vec<BlsScalar> {
    match k {
        Kernel::Fft => rf::dft(v, size),
        Kernel::Ifft => rf::idft(v, size),
        Kernel::CosetFft => rf::coset_dft(v, size),
        Kernel::CosetIfft => rf::coset_idft(v, size),
    }
}

/// Check the defining relation at one index without the O(n^2) transform:
/// forward kernels: out[i] = p(x_i); inverse kernels: the output polynomial
/// evaluated at x_i gives back in[i].
fn check_index(k: Kernel, size: usize, input: &[BlsScalar], out: &[BlsScalar], i: usize) -> bool {
    match k {
        Kernel::Fft => out[i] == rf::dft_at(input, size, i),
        Kernel::CosetFft => out[i] == rf::coset_dft_at(input, size, i),
        Kernel::Ifft => {
            let e = input.get(i).copied().unwrap_or(BlsScalar::zero());
            rf::dft_at(out, size, i) == e
        }
        Kernel::CosetIfft => {
            let e = input.get(i).copied().unwrap_or(BlsScalar::zero());
            rf::coset_dft_at(out, size, i) == e
        }
    }
}

fn lengths_for(size: usize, rng: &mut impl RngCore) -> Vec<(usize, &'static str)> {
    let mut l = vec![
        (0usize, "0"),
        (1, "1"),
        (size.saturating_sub(1), "size-1"),
        (size, "size"),
        (size + 1, "size+1"),
        (2 * size, "2*size"),
        (2 * size + 1, "2*size+1"),
        (3 * size + 1, "3*size+1"),
        (4 * size, "4*size"),
        ((rng.next_u32() as usize) % (size + 1), "random<=size"),
        (size + 1 + (rng.next_u32() as usize) % (size + 1), "random>size"),
    ];
    l.dedup_by_key(|x| x.0);
    l
}

pub fn run(tier: Tier, seed: u64) -> i32 {
    let ev = Ev::new("C19", tier, seed);
    ev.set_rule(
        "cases = (kernel, domain size, input length class, vector class, rayon pool size) and \
         polynomial/closed-form operations on generated operands, each compared with the O(n^2) \
         definition; a case is non-trivial when size >= 2 and the input is not all-zero; distinct \
         = blake2b fingerprint of the case descriptor incl. the operand digest",
    );
    ev.assume("field arithmetic, ROOT_OF_UNITY/GENERATOR/TWO_ADACITY of dusk-bls12_381 are correct");
    ev.assume("inverse transforms are only defined for inputs no longer than the domain; longer inputs to ifft/coset_ifft are not judged");

    let max_log = tier.pick(12u32, 14u32);
    let full_ref_log = 10u32;

    // ---- A. transforms vs definition, global pool -------------------------
    let mut cases = Vec::new();
    for log in 0..=max_log {
        for (ki, _) in KERNELS.iter().enumerate() {
            for class in 0..5u32 {
                cases.push((log, ki, class));
            }
        }
    }
    par_cases(cases.len() as u64, threads(), |ci| {
        let (log, ki, class) = cases[ci as usize];
        let k = KERNELS[ki];
        let size = 1usize << log;
        let mut rng = case_rng(seed, "C19.A", ci);
        for (len, lname) in lengths_for(size, &mut rng) {
            if len > size && matches!(k, Kernel::Ifft | Kernel::CosetIfft) {
                continue;
            }
            if log > 12 && len > size {
                // keep the big cases affordable: two longer lengths only
                if lname != "size+1" && lname != "3*size+1" {
                    continue;
                }
            }
            let v = vec_class(&mut rng, class, len);
            let nontrivial = size >= 2 && v.iter().any(|x| *x != BlsScalar::zero());
            let desc = json!({"part": "transform", "kernel": format!("{k:?}"), "size": size,
                "len": len, "len_class": lname, "vector": class_name(class),
                "digest": digest(&v)});
            ev.case(&desc, nontrivial);
            ev.set_insert("sizes", size);
            ev.set_insert("length_classes", lname);
            ev.bucket(&format!("kernel.{k:?}"));
            let out = match run_kernel(k, size, &v) {
                Ok(o) => o,
                Err(e) => {
                    ev.violation(
                        &format!("C19:{k:?}:panic-or-err:{}", panic_site(&e)),
                        json!({"case": desc, "error": e, "input": crate::util::hxs(&v)}),
                    );
                    continue;
                }
            };
            if out.len() != size {
                ev.violation(
                    &format!("C19:{k:?}:output-length:len_class={lname}"),
                    json!({"case": desc, "out_len": out.len()}),
                );
                continue;
            }
            let ok = if log <= full_ref_log {
                out == reference_full(k, size, &v)
            } else {
                let mut ok = true;
                for _ in 0..48 {
                    let i = rng.next_u32() as usize % size;
                    ok &= check_index(k, size, &v, &out, i);
                }
                // plus the two ends
                ok &= check_index(k, size, &v, &out, 0);
                ok &= check_index(k, size, &v, &out, size - 1);
                ok
            };
            if !ok {
                let sig = if len > size {
                    format!("C19:{k:?}:input-longer-than-domain")
                } else {
                    format!("C19:{k:?}:value-mismatch:size={size}:len_class={lname}")
                };
                ev.violation(
                    &sig,
                    json!({"case": desc, "input": crate::util::hxs(&v), "output": crate::util::hxs(&out)}),
                );
            }
            // mutual inverses (inputs within the domain)
            if len <= size {
                let inv = match k {
                    Kernel::Fft => Kernel::Ifft,
                    Kernel::Ifft => Kernel::Fft,
                    Kernel::CosetFft => Kernel::CosetIfft,
                    Kernel::CosetIfft => Kernel::CosetFft,
                };
                match run_kernel(inv, size, &out) {
                    Ok(back) => {
                        let mut padded = v.clone();
                        padded.resize(size, BlsScalar::zero());
                        ev.bucket("roundtrip");
                        if back != padded {
                            ev.violation(
                                &format!("C19:{k:?}:not-inverse-of-{inv:?}:size={size}"),
                                json!({"case": desc}),
                            );
                        }
                    }
                    Err(e) => ev.violation(
                        &format!("C19:{inv:?}:panic-or-err:{}", panic_site(&e)),
                        json!({"case": desc, "error": e}),
                    ),
                }
            }
        }
    });

    // ---- B. pool sweep at the parallel thresholds -------------------------
    pool_sweep(&ev, tier, seed);

    // ---- C. polynomial arithmetic vs schoolbook ---------------------------
    poly_ops(&ev, tier, seed);

    // ---- D. batch inversion ----------------------------------------------
    batch_inv(&ev, tier, seed);

    // ---- E. closed forms ---------------------------------------------------
    closed_forms(&ev, tier, seed);

    super::c18::sanitizer_summary(&ev, "C19");
    // alloc-only (serial) build computes the same values
    if let Ok(exe) = std::env::var("VH_NOSTD") {
        if std::path::Path::new(&exe).exists() {
            let out = std::process::Command::new(&exe).args(["C19", "--sub", "digest", "--seed", &seed.to_string()]).output();
            let mine = kernel_digest(seed);
            match out {
                Ok(o) => {
                    let text = String::from_utf8_lossy(&o.stdout).to_string();
                    let theirs = text.lines().find_map(|l| l.strip_prefix("DIGEST ")).map(|s| s.to_string());
                    ev.case(&json!({"part": "serial-build-digest", "std": mine, "alloc_only": theirs}), true);
                    ev.bucket("serial_build_compared");
                    if theirs.as_deref() != Some(mine.as_str()) {
                        ev.violation("C19:alloc-only-build-computes-different-values", json!({"std": mine, "alloc_only": theirs}));
                    }
                }
                Err(e) => ev.extra("serial_build_not_run", json!(format!("{e}"))),
            }
        }
    }
    ev.floor("domain sizes", ev.set_len("sizes") as u64, (max_log + 1) as u64);
    ev.floor("length classes", ev.set_len("length_classes") as u64, 10);
    ev.floor("pool sizes", ev.set_len("pools") as u64, tier.pick(8, 17));
    ev.floor("poly ops", ev.bucket_get("poly.cases"), 200);
    ev.floor("closed form in-domain points", ev.bucket_get("closed.in_domain"), 20);
    ev.floor("vanishing-over-coset evaluations at degrees that are not a power of two", ev.bucket_get("closed.vanishing_coset.non_pow2_degree"), 500);
    ev.finish()
}

/// Digest of all four transforms and a few polynomial products on seeded
/// inputs (sizes 2^0..2^13): printed by `--sub digest`; the std build compares
/// its own digest with the one of the alloc-only (serial) binary.
pub fn kernel_digest(seed: u64) -> String {
    use dusk_bytes::Serializable;
    let mut st = blake2b_simd::Params::new().hash_length(16).to_state();
    for log in 0..=13u32 {
        let size = 1usize << log;
        let mut rng = case_rng(seed, "C19.digest", log as u64);
        let v: Vec<BlsScalar> = (0..size).map(|_| rand_scalar(&mut rng)).collect();
        for k in KERNELS {
            if let Ok(o) = run_kernel(k, size, &v) {
                for x in &o {
                    st.update(&x.to_bytes());
                }
            }
        }
        let a = &v[..v.len().min(200)];
        for x in dv::poly_mul(a, a) {
            st.update(&x.to_bytes());
        }
    }
    hex::encode(st.finalize().as_bytes())
}

pub fn digest_workload(seed: u64) -> i32 {
    println!("DIGEST {}", kernel_digest(seed));
    0
}

/// Tiny serial workload for Miri (`--sub miri`, alloc-only build): the
/// scalar-field kernels at sizes <= 2^4 against their definitions.
pub fn miri_workload(seed: u64) -> i32 {
    let mut rng = case_rng(seed, "C19.miri", 0);
    let mut checked = 0u64;
    for log in 0..=3u32 {
        let size = 1usize << log;
        let v: Vec<BlsScalar> = (0..size).map(|_| rand_scalar(&mut rng)).collect();
        for k in KERNELS {
            match run_kernel(k, size, &v) {
                Ok(o) if o == reference_full(k, size, &v) => checked += 1,
                other => {
                    println!("MIRI-WORKLOAD mismatch {k:?} size {size}: {:?}", other.map(|o| o.len()));
                    return 3;
                }
            }
        }
    }
    let a: Vec<BlsScalar> = (0..5).map(|_| rand_scalar(&mut rng)).collect();
    let b: Vec<BlsScalar> = (0..3).map(|_| rand_scalar(&mut rng)).collect();
    if rf::trim(dv::poly_mul(&a, &b)) != rf::mul(&a, &b) || rf::trim(dv::poly_add(&a, &b)) != rf::add(&a, &b) {
        println!("MIRI-WORKLOAD polynomial mismatch");
        return 3;
    }
    let z = rand_scalar(&mut rng);
    if rf::trim(dv::poly_ruffini(&a, z)) != rf::div_linear(&a, &z).0 {
        println!("MIRI-WORKLOAD ruffini mismatch");
        return 3;
    }
    let mut inv = vec![a[0], BlsScalar::zero(), a[1]];
    dv::batch_inversion(&mut inv);
    if inv != vec![a[0].invert().unwrap(), BlsScalar::zero(), a[1].invert().unwrap()] {
        println!("MIRI-WORKLOAD batch inversion mismatch");
        return 3;
    }
    // decoders of scalars / polynomials / evaluations
    let bytes = dv::poly_to_var_bytes(&a);
    if dv::poly_from_slice(&bytes).ok() != Some(a.clone()) {
        println!("MIRI-WORKLOAD polynomial decode mismatch");
        return 3;
    }
    let eb = dv::evaluations_to_var_bytes(4, &a[..4]).unwrap();
    if dv::evaluations_from_slice(&eb).map(|(_, e)| e).ok() != Some(a[..4].to_vec()) {
        println!("MIRI-WORKLOAD evaluations decode mismatch");
        return 3;
    }
    println!("MIRI-WORKLOAD C19 checked={}", checked + 5);
    0
}

/// Light parallel workload for the ThreadSanitizer build (`--sub sanitizer`).
pub fn sanitizer_workload(seed: u64) -> i32 {
    let mut runs = 0u64;
    for log in [12u32, 13] {
        let size = 1usize << log;
        let mut rng = case_rng(seed, "C19.san", log as u64);
        let v: Vec<BlsScalar> = (0..size).map(|_| rand_scalar(&mut rng)).collect();
        for k in KERNELS {
            let mut first: Option<Vec<BlsScalar>> = None;
            for p in [1usize, 4, 16, 17] {
                let pool = rayon::ThreadPoolBuilder::new().num_threads(p).build().unwrap();
                let out = pool.install(|| run_kernel(k, size, &v));
                runs += 1;
                match (&first, out) {
                    (None, Ok(o)) => first = Some(o),
                    (Some(f), Ok(o)) => {
                        if *f != o {
                            println!("SANITIZER-WORKLOAD mismatch {k:?} size {size} pool {p}");
                            return 3;
                        }
                    }
                    (_, Err(e)) => {
                        println!("SANITIZER-WORKLOAD error {e}");
                        return 3;
                    }
                }
            }
        }
        // polynomial multiplication and batch kernels use the same pool
        let a: Vec<BlsScalar> = v[..300].to_vec();
        let _ = dv::poly_mul(&a, &a);
        let _ = dv::evaluate_all_lagrange_coefficients(size, rand_scalar(&mut rng));
        let _ = dv::compute_barycentric_eval(&v, &rand_scalar(&mut rng), size);
    }
    println!("SANITIZER-WORKLOAD C19 runs={runs}");
    0
}

fn digest(v: &[BlsScalar]) -> String {
    use dusk_bytes::Serializable;
    let mut st = blake2b_simd::Params::new().hash_length(8).to_state();
    for x in v {
        st.update(&x.to_bytes());
    }
    hex::encode(st.finalize().as_bytes())
}

fn pool_sweep(ev: &Ev, tier: Tier, seed: u64) {
    let pools: Vec<usize> = match tier {
        Tier::Quick => vec![1, 2, 3, 4, 5, 8, 16, 17],
        Tier::Thorough => (1..=17).chain([24, 32]).collect(),
    };
    let logs: Vec<u32> = tier.pick(vec![11, 12, 13], vec![11, 12, 13, 14]);
    for &log in &logs {
        let size = 1usize << log;
        let mut rng = case_rng(seed, "C19.B", log as u64);
        let v: Vec<BlsScalar> = (0..size).map(|_| rand_scalar(&mut rng)).collect();
        let idx: Vec<usize> = (0..32).map(|_| rng.next_u32() as usize % size).collect();
        for k in KERNELS {
            let mut first: Option<(usize, Vec<BlsScalar>)> = None;
            for &p in &pools {
                let pool = rayon::ThreadPoolBuilder::new().num_threads(p).build().unwrap();
                let out = pool.install(|| run_kernel(k, size, &v));
                let desc = json!({"part": "pool-sweep", "kernel": format!("{k:?}"), "size": size,
                    "pool": p, "digest": digest(&v)});
                ev.case(&desc, true);
                ev.set_insert("pools", p);
                ev.set_insert(&format!("pools@2^{log}"), p);
                let out = match out {
                    Ok(o) => o,
                    Err(e) => {
                        ev.violation(
                            &format!("C19:{k:?}:panic-or-err:pool:{}", panic_site(&e)),
                            json!({"case": desc, "error": e}),
                        );
                        continue;
                    }
                };
                let mut ok = out.len() == size;
                if ok {
                    for &i in &idx {
                        ok &= check_index(k, size, &v, &out, i);
                    }
                }
                if !ok {
                    ev.violation(
                        &format!("C19:{k:?}:value-mismatch:size={size}:pool={p}"),
                        json!({"case": desc}),
                    );
                }
                match &first {
                    None => first = Some((p, out)),
                    Some((p0, o0)) => {
                        if *o0 != out {
                            ev.violation(
                                &format!("C19:{k:?}:pool-dependent:size={size}"),
                                json!({"case": desc, "differs_from_pool": p0}),
                            );
                        }
                    }
                }
            }
        }
    }
}

fn rand_poly(rng: &mut impl RngCore, max_len: usize) -> Vec<BlsScalar> {
    let len = rng.next_u32() as usize % (max_len + 1);
    let class = rng.next_u32() % 6;
    let mut v = vec_class(rng, class.min(4), len);
    if class == 5 && !v.is_empty() {
        // leading coefficient cancels in add/sub with a twin
        let last = v.len() - 1;
        v[last] = BlsScalar::one();
    }
    v
}

fn poly_ops(ev: &Ev, tier: Tier, seed: u64) {
    let n = tier.pick(600u64, 6000u64);
    par_cases(n, threads(), |ci| {
        let mut rng = case_rng(seed, "C19.C", ci);
        let max_len = [0usize, 1, 2, 3, 8, 33, 64, 130, 300][ci as usize % 9];
        let a = rand_poly(&mut rng, max_len);
        let mut b = rand_poly(&mut rng, max_len);
        if ci % 7 == 0 {
            // same length, leading terms cancel under subtraction / addition
            b = a.clone();
            if let Some(l) = b.last_mut() {
                if ci % 14 == 0 {
                    *l = -*l;
                }
            }
            if b.len() > 1 {
                b[0] += BlsScalar::one();
            }
        }
        let k = pool_scalar(&mut rng);
        let z = if ci % 5 == 0 { pool_scalar(&mut rng) } else { rand_scalar(&mut rng) };
        let ta = rf::trim(a.clone());
        let tb = rf::trim(b.clone());
        let nontrivial = !ta.is_empty() || !tb.is_empty();
        let desc = json!({"part": "poly", "a_len": a.len(), "b_len": b.len(),
            "a": digest(&a), "b": digest(&b), "k": hx(&k), "z": hx(&z)});
        ev.case(&desc, nontrivial);
        ev.bucket("poly.cases");
        let chk = |name: &str, got: Result<Vec<BlsScalar>, String>, want: Vec<BlsScalar>| {
            ev.bucket(&format!("poly.{name}"));
            match got {
                Ok(g) => {
                    // the crate may keep untrimmed zeros in some results; the
                    // polynomial *value* is what the property is about
                    if rf::trim(g.clone()) != want {
                        ev.violation(
                            &format!("C19:poly:{name}:value-mismatch"),
                            json!({"case": desc, "a": crate::util::hxs(&a), "b": crate::util::hxs(&b),
                                   "got": crate::util::hxs(&g), "want": crate::util::hxs(&want)}),
                        );
                    }
                }
                Err(e) => ev.violation(
                    &format!("C19:poly:{name}:panic:{}", panic_site(&e)),
                    json!({"case": desc, "a": crate::util::hxs(&a), "b": crate::util::hxs(&b), "error": e}),
                ),
            }
        };
        chk("add", guard(|| dv::poly_add(&a, &b)), rf::add(&a, &b));
        chk("add_assign", guard(|| dv::poly_add_assign(&a, &b)), rf::add(&a, &b));
        chk(
            "add_assign_scaled",
            guard(|| dv::poly_add_assign_scaled(&a, k, &b)),
            rf::add(&a, &rf::scale(&b, &k)),
        );
        chk("sub", guard(|| dv::poly_sub(&a, &b)), rf::sub(&a, &b));
        chk("sub_assign", guard(|| dv::poly_sub_assign(&a, &b)), rf::sub(&a, &b));
        chk("neg", guard(|| dv::poly_neg(&a)), rf::scale(&a, &-BlsScalar::one()));
        chk("mul", guard(|| dv::poly_mul(&a, &b)), rf::mul(&a, &b));
        chk("scale", guard(|| dv::poly_scale(&a, &k)), rf::scale(&a, &k));
        chk("add_scalar", guard(|| dv::poly_add_scalar(&a, &k)), rf::add(&a, &[k]));
        chk("sub_scalar", guard(|| dv::poly_sub_scalar(&a, &k)), rf::sub(&a, &[k]));
        // evaluation
        ev.bucket("poly.evaluate");
        match guard(|| dv::poly_evaluate(&a, &z)) {
            Ok(g) => {
                if g != rf::horner(&a, &z) {
                    ev.violation("C19:poly:evaluate:value-mismatch", json!({"case": desc, "a": crate::util::hxs(&a)}));
                }
            }
            Err(e) => ev.violation(&format!("C19:poly:evaluate:panic:{}", panic_site(&e)), json!({"case": desc, "error": e})),
        }
        // division by (X - z): quotient of the polynomial division
        let (q, _rem) = rf::div_linear(&a, &z);
        chk("ruffini", guard(|| dv::poly_ruffini(&a, z)), q);
        // exact division: (X - z) * b divided by (X - z) gives b back
        let prod = rf::mul(&b, &[-z, BlsScalar::one()]);
        chk("ruffini_exact", guard(|| dv::poly_ruffini(&prod, z)), rf::trim(b.clone()));
        // aggregate witness = sum v^i p_i divided by (X - z)
        let v = rand_scalar(&mut rng);
        let agg = rf::add(&a, &rf::scale(&b, &v));
        chk(
            "aggregate_witness",
            guard(|| dv::compute_aggregate_witness(&[a.clone(), b.clone()], &z, &v)),
            rf::div_linear(&agg, &z).0,
        );
    });
}

fn batch_inv(ev: &Ev, tier: Tier, seed: u64) {
    let n = tier.pick(300u64, 3000u64);
    par_cases(n, threads(), |ci| {
        let mut rng = case_rng(seed, "C19.D", ci);
        let len = [0usize, 1, 2, 3, 7, 8, 9, 64, 257][ci as usize % 9];
        let zero_mode = (ci / 9) % 5;
        let mut v: Vec<BlsScalar> = (0..len).map(|_| rand_scalar(&mut rng)).collect();
        match zero_mode {
            0 => {}
            1 => {
                if len > 0 {
                    v[0] = BlsScalar::zero()
                }
            }
            2 => {
                if len > 0 {
                    v[len - 1] = BlsScalar::zero()
                }
            }
            3 => {
                for x in v.iter_mut() {
                    if rng.next_u32() % 2 == 0 {
                        *x = BlsScalar::zero()
                    }
                }
            }
            _ => v.iter_mut().for_each(|x| *x = BlsScalar::zero()),
        }
        let desc = json!({"part": "batch_inversion", "len": len, "zero_mode": zero_mode, "digest": digest(&v)});
        ev.case(&desc, len >= 2 && v.iter().any(|x| *x != BlsScalar::zero()));
        ev.bucket("batch_inversion");
        let mut got = v.clone();
        match guard(|| dv::batch_inversion(&mut got)) {
            Ok(()) => {
                let want: Vec<BlsScalar> = v
                    .iter()
                    .map(|x| x.invert().unwrap_or(BlsScalar::zero()))
                    .collect();
                if got != want {
                    ev.violation(
                        &format!("C19:batch_inversion:value-mismatch:zero_mode={zero_mode}"),
                        json!({"case": desc, "input": crate::util::hxs(&v), "got": crate::util::hxs(&got)}),
                    );
                }
            }
            Err(e) => ev.violation(
                &format!("C19:batch_inversion:panic:{}", panic_site(&e)),
                json!({"case": desc, "error": e}),
            ),
        }
    });
}

fn closed_forms(ev: &Ev, tier: Tier, seed: u64) {
    let n = tier.pick(240u64, 2400u64);
    par_cases(n, threads(), |ci| {
        let mut rng = case_rng(seed, "C19.E", ci);
        let log = (ci % 7) as u32; // 1..64
        let size = 1usize << log;
        let w = rf::root_of_unity(size);
        let in_domain = ci % 3 == 0;
        let tau = if in_domain {
            rf::pow(&w, (rng.next_u32() as usize % size) as u64)
        } else if ci % 3 == 1 {
            rand_scalar(&mut rng)
        } else {
            pool_scalar(&mut rng)
        };
        let tau_in_domain = rf::pow(&tau, size as u64) == BlsScalar::one();
        let desc = json!({"part": "closed-forms", "size": size, "tau": hx(&tau), "in_domain": tau_in_domain});
        ev.case(&desc, size >= 2);
        if tau_in_domain {
            ev.bucket("closed.in_domain");
        } else {
            ev.bucket("closed.outside");
        }
        // vanishing polynomial = prod (tau - w^j)
        let mut zh = BlsScalar::one();
        let mut wj = BlsScalar::one();
        for _ in 0..size {
            zh *= tau - wj;
            wj *= w;
        }
        match guard(|| dv::evaluate_vanishing_polynomial(size, &tau)) {
            Ok(Ok(g)) => {
                if g != zh {
                    ev.violation("C19:vanishing:value-mismatch", json!({"case": desc}));
                }
            }
            other => ev.violation("C19:vanishing:panic-or-err", json!({"case": desc, "got": format!("{other:?}")})),
        }
        // all Lagrange coefficients by the product formula
        match guard(|| dv::evaluate_all_lagrange_coefficients(size, tau)) {
            Ok(Ok(g)) => {
                let want: Vec<BlsScalar> = (0..size).map(|i| rf::lagrange_product(size, i, &tau)).collect();
                if g != want {
                    ev.violation(
                        &format!("C19:lagrange:value-mismatch:in_domain={tau_in_domain}"),
                        json!({"case": desc, "got": crate::util::hxs(&g), "want": crate::util::hxs(&want)}),
                    );
                }
            }
            other => ev.violation("C19:lagrange:panic-or-err", json!({"case": desc, "got": format!("{other:?}")})),
        }
        // barycentric evaluation = interpolate then evaluate
        let elen = [0usize, 1, size / 2, size][rng.next_u32() as usize % 4].min(size);
        let mut evals: Vec<BlsScalar> = (0..elen).map(|_| pool_scalar(&mut rng)).collect();
        if tau_in_domain && !evals.is_empty() {
            // make sure the entry at tau's own index is non-zero in some cases
            let mut idx = 0;
            let mut x = BlsScalar::one();
            while x != tau {
                x *= w;
                idx += 1;
            }
            if idx < evals.len() && ci % 2 == 0 {
                evals[idx] = rand_scalar(&mut rng);
            }
        }
        let want = rf::interpolate_eval(&evals, size, &tau);
        match guard(|| dv::compute_barycentric_eval(&evals, &tau, size)) {
            Ok(Ok(g)) => {
                if g != want {
                    ev.violation(
                        &format!("C19:barycentric:value-mismatch:in_domain={tau_in_domain}"),
                        json!({"case": desc, "evals": crate::util::hxs(&evals), "got": hx(&g), "want": hx(&want)}),
                    );
                }
            }
            other => ev.violation("C19:barycentric:panic-or-err", json!({"case": desc, "got": format!("{other:?}")})),
        }
        // fused verifier evaluation: (L_1(tau), PI(tau)) for sparse rows
        let rows: Vec<usize> = {
            let mut r: Vec<usize> = (0..size).filter(|_| rng.next_u32() % 3 == 0).collect();
            if r.is_empty() {
                r.push(size - 1);
            }
            r
        };
        let w_inv = w.invert().unwrap();
        let roots: Vec<BlsScalar> = rows.iter().map(|i| rf::pow(&w_inv, *i as u64)).collect();
        let pis: Vec<BlsScalar> = rows.iter().map(|_| pool_scalar(&mut rng)).collect();
        let mut dense = vec![BlsScalar::zero(); size];
        for (r, p) in rows.iter().zip(&pis) {
            dense[*r] = *p;
        }
        let want_l1 = rf::lagrange_product(size, 0, &tau);
        let want_pi = rf::interpolate_eval(&dense, size, &tau);
        ev.bucket("closed.fused");
        match guard(|| dv::compute_lagrange_and_barycentric_evaluations(&roots, &pis, &tau, size)) {
            Ok(Ok((l1, pi))) => {
                if l1 != want_l1 || pi != want_pi {
                    ev.violation(
                        &format!("C19:fused-lagrange-pi:value-mismatch:in_domain={tau_in_domain}"),
                        json!({"case": desc, "rows": rows, "pis": crate::util::hxs(&pis)}),
                    );
                }
            }
            Ok(Err(_)) => {
                // documented: rejected only when a denominator vanishes, i.e.
                // tau = 1 or tau = w^row for a row with a non-zero input
                let hits_pole = tau == BlsScalar::one()
                    || rows.iter().zip(&pis).any(|(r, p)| {
                        *p != BlsScalar::zero() && rf::pow(&w, *r as u64) == tau
                    });
                ev.bucket("closed.fused.rejected");
                if !hits_pole {
                    ev.violation("C19:fused-lagrange-pi:spurious-reject", json!({"case": desc, "rows": rows}));
                }
            }
            Err(e) => ev.violation(&format!("C19:fused-lagrange-pi:panic:{}", panic_site(&e)), json!({"case": desc, "error": e})),
        }
        // X^d - 1 over the coset of the 8x domain: the degree the prover uses
        // (d = size) and every other admissible degree class (the kernel is
        // specified for any d below the domain size)
        let big = size * 8;
        let wb = rf::root_of_unity(big);
        let mut degrees: Vec<u64> = vec![size as u64, 0, 1, 3, big as u64 - 1, (big / 2) as u64, 1 + rng.next_u64() % (big as u64 - 1), 1 + rng.next_u64() % (big as u64 - 1)];
        if size >= 4 {
            degrees.push(size as u64 - 1);
            degrees.push(size as u64 + 1);
            degrees.push(3 * size as u64);
            degrees.push(6 * size as u64);
        }
        degrees.retain(|d| *d < big as u64);
        degrees.dedup();
        for d in degrees {
            ev.bucket(if d == size as u64 { "closed.vanishing_coset.prover_degree" } else if d.is_power_of_two() || d == 0 { "closed.vanishing_coset.other_pow2_degree" } else { "closed.vanishing_coset.non_pow2_degree" });
            match guard(|| dv::compute_vanishing_poly_over_coset(big, d)) {
                Ok(Ok(g)) => {
                    let mut x = GENERATOR;
                    let mut ok = g.len() == big;
                    for gi in g.iter() {
                        ok &= *gi == rf::pow(&x, d) - BlsScalar::one();
                        x *= wb;
                    }
                    if !ok {
                        ev.violation("C19:vanishing-over-coset:value-mismatch", json!({"case": desc, "degree": d, "domain": big}));
                    }
                    // the matcher accepts the true vector (built from the definition) and rejects a perturbed one
                    let mut truth = Vec::with_capacity(big);
                    let mut x = GENERATOR;
                    for _ in 0..big {
                        truth.push(rf::pow(&x, d) - BlsScalar::one());
                        x *= wb;
                    }
                    let t = dv::matches_vanishing_poly_over_coset(big, d, &truth).unwrap_or(false);
                    let mut bad = truth.clone();
                    let j = rng.next_u32() as usize % big;
                    bad[j] += BlsScalar::one();
                    let f = dv::matches_vanishing_poly_over_coset(big, d, &bad).unwrap_or(true);
                    if !t || f {
                        ev.violation("C19:matches-vanishing:wrong-decision", json!({"case": desc, "degree": d, "true_accepted": t, "perturbed_accepted": f}));
                    }
                }
                other => ev.violation("C19:vanishing-over-coset:panic-or-err", json!({"case": desc, "degree": d, "got": format!("{:?}", other.map(|r| r.map(|v| v.len())))})),
            }
        }
        // linear polynomial over the coset
        let lin = rf::coset_dft(&[BlsScalar::zero(), BlsScalar::one()], big);
        let t = dv::matches_linear_poly_over_coset(big, &lin).unwrap_or(false);
        let mut bad = lin.clone();
        let j = rng.next_u32() as usize % big;
        bad[j] += BlsScalar::one();
        let f = dv::matches_linear_poly_over_coset(big, &bad).unwrap_or(true);
        if !t || f {
            ev.violation("C19:matches-linear:wrong-decision", json!({"case": desc, "true_accepted": t, "perturbed_accepted": f}));
        }
    });
}
