//! C17 — checked decoders are total, bounded and admit only well-formed data.

use std::sync::Arc;
use std::time::{Duration, Instant};

use dusk_bls12_381::{BlsScalar, G1Affine, G2Affine};
use dusk_bytes::{DeserializableSlice, Serializable};
use dusk_plonk::prelude::{PlonkVersion, Proof, Prover, PublicParameters, Verifier};
use dusk_plonk::verif as dv;
use merlin::Transcript;
use rand_core::RngCore;
use serde_json::json;

use super::common::{self, Specimen};
use crate::gen::build::GenCfg;
use crate::gen::mutate::{self, le_limbs, limbs_lt_modulus};
use crate::gen::program::HC;
use crate::mon::alloc;
use crate::mon::evidence::{Ev, Tier};
use crate::mon::panic::{guard, panic_site};
use crate::mon::rng::case_rng;
use crate::refimpl::verifier as rv;
use crate::util::{par_cases, threads};

#[derive(Clone, Copy, Debug, PartialEq, Eq)]
enum Dec {
    Prover,
    Verifier,
    Proof,
    Params,
    CommitKeyRaw,
    CommitKeyVar,
    OpeningKey,
    ProverKey,
    VerifierKey,
    Evaluations,
    Polynomial,
}

const DECODERS: [Dec; 11] = [
    Dec::Prover, Dec::Verifier, Dec::Proof, Dec::Params, Dec::CommitKeyRaw, Dec::CommitKeyVar,
    Dec::OpeningKey, Dec::ProverKey, Dec::VerifierKey, Dec::Evaluations, Dec::Polynomial,
];

/// What a decoder returned, reduced to what the oracles need.
enum Decoded {
    Prover(Box<Prover>),
    Verifier(Box<Verifier>),
    Proof(Box<Proof>),
    Params(Box<PublicParameters>),
    CommitKey(Box<dv::CommitKeyT>),
    OpeningKey(Box<dv::OpeningKeyT>),
    /// re-encoding
    Bytes(Vec<u8>),
    Evaluations(Vec<u8>, Vec<BlsScalar>),
    Polynomial(Vec<BlsScalar>),
}

fn decode(d: Dec, bytes: &[u8]) -> Result<Result<Decoded, String>, String> {
    guard(|| -> Result<Decoded, String> {
        let e = |e: dusk_plonk::prelude::Error| format!("{e:?}");
        Ok(match d {
            Dec::Prover => Decoded::Prover(Box::new(Prover::try_from_bytes(bytes).map_err(e)?)),
            Dec::Verifier => Decoded::Verifier(Box::new(Verifier::try_from_bytes(bytes).map_err(e)?)),
            Dec::Proof => Decoded::Proof(Box::new(Proof::from_slice(bytes).map_err(|x| format!("{x:?}"))?)),
            Dec::Params => Decoded::Params(Box::new(PublicParameters::from_slice(bytes).map_err(e)?)),
            Dec::CommitKeyRaw => Decoded::CommitKey(Box::new(dv::CommitKeyT::from_raw_var_bytes(bytes).map_err(e)?)),
            Dec::CommitKeyVar => Decoded::CommitKey(Box::new(dv::CommitKeyT::from_slice(bytes).map_err(e)?)),
            Dec::OpeningKey => Decoded::OpeningKey(Box::new(dv::opening_key_from_slice(bytes).map_err(e)?)),
            Dec::ProverKey => Decoded::Bytes(dv::prover_key_from_slice(bytes).map_err(e)?),
            Dec::VerifierKey => Decoded::Bytes(dv::verifier_key_from_slice(bytes).map_err(e)?),
            Dec::Evaluations => {
                let (d, ev) = dv::evaluations_from_slice(bytes).map_err(e)?;
                Decoded::Evaluations(d, ev)
            }
            Dec::Polynomial => Decoded::Polynomial(dv::poly_from_slice(bytes).map_err(e)?),
        })
    })
}

struct Originals {
    spec: Specimen,
    pp: Arc<PublicParameters>,
    bytes: Vec<(Dec, Vec<u8>)>,
    other: Vec<(Dec, Vec<u8>)>,
}

fn originals_for(spec: Specimen, other: &Specimen, deg: usize) -> Originals {
    let pp = crate::util::pp(deg);
    let mk = |s: &Specimen, pp: &PublicParameters| -> Vec<(Dec, Vec<u8>)> {
        let pbytes = s.compiled.prover.to_bytes();
        // sections of the prover encoding
        let label_len = u64::from_be_bytes(pbytes[0..8].try_into().unwrap()) as usize;
        let pk_len = u64::from_be_bytes(pbytes[8..16].try_into().unwrap()) as usize;
        let ck_len = u64::from_be_bytes(pbytes[16..24].try_into().unwrap()) as usize;
        let pk = pbytes[48 + label_len..48 + label_len + pk_len].to_vec();
        let ck = pbytes[48 + label_len + pk_len..48 + label_len + pk_len + ck_len].to_vec();
        let vk = pbytes[48 + label_len + pk_len + ck_len..].to_vec();
        // one Evaluations blob and one polynomial from the prover key: the
        // first polynomial (q_m) follows n, eval_size, poly_len
        let n = u64::from_le_bytes(pk[0..8].try_into().unwrap()) as usize;
        let eval_size = u64::from_le_bytes(pk[8..16].try_into().unwrap()) as usize;
        let poly_len = u64::from_le_bytes(pk[16..24].try_into().unwrap()) as usize;
        let poly = pk[24..24 + 32 * poly_len].to_vec();
        let evals = pk[24 + 32 * poly_len..24 + 32 * poly_len + eval_size].to_vec();
        let _ = n;
        vec![
            (Dec::Prover, pbytes),
            (Dec::Verifier, s.vbytes.clone()),
            (Dec::Proof, s.proof_v3.clone()),
            (Dec::Params, pp.to_var_bytes()),
            (Dec::CommitKeyRaw, ck),
            (Dec::CommitKeyVar, dv::pp_commit_key(pp).to_var_bytes()),
            (Dec::OpeningKey, dv::opening_key_to_bytes(dv::pp_opening_key(pp))),
            (Dec::ProverKey, pk),
            (Dec::VerifierKey, vk),
            (Dec::Evaluations, evals),
            (Dec::Polynomial, poly),
        ]
    };
    let bytes = mk(&spec, &pp);
    let other_b = mk(other, &crate::util::pp(deg + 1));
    Originals { spec, pp, bytes, other: other_b }
}

/// Structural boundaries of a valid encoding (offsets where one component
/// ends and the next begins).
fn boundaries(d: Dec, v: &[u8]) -> Vec<usize> {
    let be = |o: usize| u64::from_be_bytes(v[o..o + 8].try_into().unwrap()) as usize;
    let mut b = vec![0usize, v.len()];
    match d {
        Dec::Prover => {
            let (l, pk, ck) = (be(0), be(8), be(16));
            b.extend([48, 48 + l, 48 + l + pk, 48 + l + pk + 8, 48 + l + pk + ck, 48 + l + pk + ck + 8]);
        }
        Dec::Verifier => {
            let l = be(0);
            b.extend([48, 48 + l, 48 + l + 8, 48 + l + 8 + 15 * 48, 48 + l + 968, 48 + l + 968 + 48, 48 + l + 968 + 144, 48 + l + 968 + 240]);
        }
        Dec::Proof => b.extend([48, 528, 528 + 32, 1008 - 32]),
        Dec::Params => b.extend([48, 144, 240, 240 + 48, v.len() - 48]),
        Dec::CommitKeyRaw => b.extend([8, 8 + 97, v.len() - 97]),
        Dec::CommitKeyVar => b.extend([48, v.len() - 48]),
        Dec::OpeningKey => b.extend([48, 144]),
        Dec::ProverKey => {
            let len = u64::from_le_bytes(v[16..24].try_into().unwrap()) as usize;
            b.extend([8, 16, 24, 24 + 32 * len, 24 + 32 * len + 172]);
        }
        Dec::VerifierKey => b.extend([8, 8 + 48, 8 + 15 * 48]),
        Dec::Evaluations => b.extend([8, 12, 172, 172 + 32]),
        Dec::Polynomial => b.extend([32, v.len().saturating_sub(32)]),
    }
    b.retain(|x| *x <= v.len());
    b
}

/// Structure-aware mutation of a valid encoding for decoder `d`.
fn structured(d: Dec, valid: &[u8], rng: &mut impl RngCore) -> Option<(String, Vec<u8>)> {
    let mut v = valid.to_vec();
    match d {
        Dec::Prover => {
            let label_len = u64::from_be_bytes(v[0..8].try_into().unwrap()) as usize;
            let pk_len = u64::from_be_bytes(v[8..16].try_into().unwrap()) as usize;
            let ck_len = u64::from_be_bytes(v[16..24].try_into().unwrap()) as usize;
            let pk_off = 48 + label_len;
            let ck_off = pk_off + pk_len;
            let vk_off = ck_off + ck_len;
            match rng.next_u32() % 10 {
                0 | 1 => {
                    let f = rng.next_u32() as usize % 6;
                    let e = mutate::edit_len(&mut v, 8 * f, true, rng.next_u32() as usize);
                    Some((format!("header[{f}]{e}"), v))
                }
                2 if ck_len >= 8 + 2 * 97 => {
                    // several raw commit-key points moved out of the subgroup together
                    let count = (ck_len - 8) / 97;
                    let c = mutate::cancelling_raw(rng, &mut v, ck_off + 8, count)?;
                    Some((format!("commit-key-points:{c}"), v))
                }
                2 | 3 | 4 => {
                    // raw commit-key point
                    let count = (ck_len - 8) / 97;
                    let i = rng.next_u32() as usize % count;
                    let off = ck_off + 8 + 97 * i;
                    let (c, b) = mutate::hostile_g1_raw(rng, &valid[off..off + 97]);
                    v[off..off + 97].copy_from_slice(&b);
                    Some((format!("commit-key-point:{c}"), v))
                }
                5 => {
                    let e = mutate::edit_len(&mut v, ck_off, false, rng.next_u32() as usize);
                    Some((format!("commit-key-count{e}"), v))
                }
                6 | 7 => {
                    // a scalar or a length somewhere in the prover key
                    let (c, inner) = structured(Dec::ProverKey, &valid[pk_off..ck_off], rng)?;
                    if inner.len() == pk_len {
                        v[pk_off..ck_off].copy_from_slice(&inner);
                        Some((format!("prover-key:{c}"), v))
                    } else {
                        None
                    }
                }
                8 => {
                    let c = mutate::cancelling_compressed(rng, &mut v, vk_off + 8, 15)?;
                    Some((format!("verifier-key-commitments:{c}"), v))
                }
                _ => {
                    let i = rng.next_u32() as usize % 15;
                    let off = vk_off + 8 + 48 * i;
                    let (c, b) = mutate::hostile_g1_compressed(rng, &valid[off..off + 48]);
                    v[off..off + 48].copy_from_slice(&b);
                    Some((format!("verifier-key-commitment:{c}"), v))
                }
            }
        }
        Dec::Verifier => {
            let label_len = u64::from_be_bytes(v[0..8].try_into().unwrap()) as usize;
            let vk_off = 48 + label_len;
            let ok_off = vk_off + 8 + 20 * 48;
            match rng.next_u32() % 8 {
                0 | 1 => {
                    let f = rng.next_u32() as usize % 6;
                    let e = mutate::edit_len(&mut v, 8 * f, true, rng.next_u32() as usize);
                    Some((format!("header[{f}]{e}"), v))
                }
                2 => {
                    let e = mutate::edit_len(&mut v, vk_off, false, rng.next_u32() as usize);
                    Some((format!("vk.n{e}"), v))
                }
                3 => {
                    let c = mutate::cancelling_compressed(rng, &mut v, vk_off + 8, 15)?;
                    Some((format!("commitments:{c}"), v))
                }
                4 => {
                    let i = rng.next_u32() as usize % 15;
                    let off = vk_off + 8 + 48 * i;
                    let (c, b) = mutate::hostile_g1_compressed(rng, &valid[off..off + 48]);
                    v[off..off + 48].copy_from_slice(&b);
                    Some((format!("commitment:{c}"), v))
                }
                _ => {
                    let (c, inner) = structured(Dec::OpeningKey, &valid[ok_off..ok_off + 240], rng)?;
                    v[ok_off..ok_off + 240].copy_from_slice(&inner[..240.min(inner.len())]);
                    Some((format!("opening-key:{c}"), v))
                }
            }
        }
        Dec::Proof => {
            let f = rng.next_u32() as usize % 26;
            let r = super::c03::field_range(f);
            let (c, b) = if f < 11 { mutate::hostile_g1_compressed(rng, &valid[r.clone()]) } else { mutate::hostile_scalar(rng, &valid[r.clone()]) };
            v[r].copy_from_slice(&b);
            Some((format!("field:{c}"), v))
        }
        Dec::Params => {
            if rng.next_u32() % 3 == 0 {
                let (c, inner) = structured(Dec::OpeningKey, &valid[..240], rng)?;
                v[..240].copy_from_slice(&inner[..240.min(inner.len())]);
                Some((format!("opening-key:{c}"), v))
            } else if rng.next_u32() % 4 == 0 && v.len() >= 240 + 96 {
                let count = (v.len() - 240) / 48;
                let c = mutate::cancelling_compressed(rng, &mut v, 240, count)?;
                Some((format!("powers:{c}"), v))
            } else {
                let count = (v.len() - 240) / 48;
                let i = rng.next_u32() as usize % count;
                let off = 240 + 48 * i;
                let (c, b) = mutate::hostile_g1_compressed(rng, &valid[off..off + 48]);
                v[off..off + 48].copy_from_slice(&b);
                Some((format!("power:{c}"), v))
            }
        }
        Dec::CommitKeyRaw => {
            let count = (v.len() - 8) / 97;
            match rng.next_u32() % 5 {
                0 => {
                    let e = mutate::edit_len(&mut v, 0, false, rng.next_u32() as usize);
                    Some((format!("count{e}"), v))
                }
                1 if count >= 2 => {
                    let c = mutate::cancelling_raw(rng, &mut v, 8, count)?;
                    Some((format!("points:{c}"), v))
                }
                _ => {
                    let i = rng.next_u32() as usize % count;
                    let off = 8 + 97 * i;
                    let (c, b) = mutate::hostile_g1_raw(rng, &valid[off..off + 97]);
                    v[off..off + 97].copy_from_slice(&b);
                    Some((format!("point:{c}"), v))
                }
            }
        }
        Dec::CommitKeyVar => {
            let count = v.len() / 48;
            if count >= 2 && rng.next_u32() % 4 == 0 {
                let c = mutate::cancelling_compressed(rng, &mut v, 0, count)?;
                return Some((format!("points:{c}"), v));
            }
            let i = rng.next_u32() as usize % count;
            let (c, b) = mutate::hostile_g1_compressed(rng, &valid[48 * i..48 * i + 48]);
            v[48 * i..48 * i + 48].copy_from_slice(&b);
            Some((format!("point:{c}"), v))
        }
        Dec::OpeningKey => match rng.next_u32() % 6 {
            0 | 1 => {
                let (c, b) = mutate::hostile_g1_compressed(rng, &valid[0..48]);
                v[0..48].copy_from_slice(&b);
                Some((format!("g:{c}"), v))
            }
            2 => {
                // G2 identity
                let which = 48 + 96 * (rng.next_u32() as usize % 2);
                for b in v[which..which + 96].iter_mut() {
                    *b = 0;
                }
                v[which] = 0xc0;
                Some(("g2-identity".into(), v))
            }
            3 => {
                let which = 48 + 96 * (rng.next_u32() as usize % 2);
                v[which] ^= [0x80u8, 0x40, 0x20][rng.next_u32() as usize % 3];
                Some(("g2-flag-flip".into(), v))
            }
            4 => {
                // swap h and x_h (valid points, different key)
                let h = v[48..144].to_vec();
                let xh = v[144..240].to_vec();
                v[48..144].copy_from_slice(&xh);
                v[144..240].copy_from_slice(&h);
                Some(("g2-swapped".into(), v))
            }
            _ => {
                let i = 48 + rng.next_u32() as usize % 192;
                v[i] ^= 1 << (rng.next_u32() % 8);
                Some(("g2-bit-flip".into(), v))
            }
        },
        Dec::ProverKey => {
            let n = u64::from_le_bytes(v[0..8].try_into().unwrap()) as usize;
            let _ = n;
            match rng.next_u32() % 7 {
                6 => {
                    let poly_len = u64::from_le_bytes(valid[16..24].try_into().unwrap()) as usize;
                    let off = 24 + 32 * poly_len;
                    let log = 18 + rng.next_u32() % 7;
                    v[off..off + 172].copy_from_slice(&mutate::canonical_domain_header(log));
                    Some((format!("canonical-header-of-larger-domain:2^{log}"), v))
                }
                0 => {
                    let e = mutate::edit_len(&mut v, 0, false, rng.next_u32() as usize);
                    Some((format!("n{e}"), v))
                }
                1 => {
                    let e = mutate::edit_len(&mut v, 8, false, rng.next_u32() as usize);
                    Some((format!("evaluations-size{e}"), v))
                }
                2 => {
                    let e = mutate::edit_len(&mut v, 16, false, rng.next_u32() as usize);
                    Some((format!("first-poly-len{e}"), v))
                }
                3 => {
                    // the domain header of the first evaluations block
                    let poly_len = u64::from_le_bytes(valid[16..24].try_into().unwrap()) as usize;
                    let off = 24 + 32 * poly_len;
                    let i = off + rng.next_u32() as usize % 172;
                    v[i] ^= 1 << (rng.next_u32() % 8);
                    Some(("domain-bit-flip".into(), v))
                }
                _ => {
                    // a scalar somewhere after the header (32-byte aligned
                    // guesses are as good as exact offsets here)
                    let i = 24 + 32 * (rng.next_u32() as usize % ((v.len() - 56) / 32));
                    let (c, b) = mutate::hostile_scalar(rng, &valid[i..i + 32]);
                    v[i..i + 32].copy_from_slice(&b);
                    Some((format!("scalar:{c}"), v))
                }
            }
        }
        Dec::VerifierKey => {
            if rng.next_u32() % 4 == 0 {
                let e = mutate::edit_len(&mut v, 0, false, rng.next_u32() as usize);
                Some((format!("n{e}"), v))
            } else {
                let i = rng.next_u32() as usize % 15;
                let off = 8 + 48 * i;
                let (c, b) = mutate::hostile_g1_compressed(rng, &valid[off..off + 48]);
                v[off..off + 48].copy_from_slice(&b);
                Some((format!("commitment:{c}"), v))
            }
        }
        Dec::Evaluations => match rng.next_u32() % 6 {
            5 => {
                // a fully canonical header of a much larger domain in front of
                // the same (now far too short) evaluation data
                let log = 18 + rng.next_u32() % 7;
                v[..172].copy_from_slice(&mutate::canonical_domain_header(log));
                Some((format!("canonical-header-of-larger-domain:2^{log}"), v))
            }
            0 => {
                let e = mutate::edit_len(&mut v, 0, false, rng.next_u32() as usize);
                Some((format!("domain.size{e}"), v))
            }
            1 => {
                v[8 + rng.next_u32() as usize % 4] ^= 1 << (rng.next_u32() % 8);
                Some(("domain.log-size-bit".into(), v))
            }
            2 => {
                let i = 12 + 32 * (rng.next_u32() as usize % 5);
                let (c, b) = mutate::hostile_scalar(rng, &valid[i..i + 32]);
                v[i..i + 32].copy_from_slice(&b);
                Some((format!("domain-element:{c}"), v))
            }
            3 => {
                let k = (v.len() - 172) / 32;
                let i = 172 + 32 * (rng.next_u32() as usize % k.max(1));
                let (c, b) = mutate::hostile_scalar(rng, &valid[i..i + 32]);
                v[i..i + 32].copy_from_slice(&b);
                Some((format!("evaluation:{c}"), v))
            }
            _ => {
                v.extend_from_slice(&[0u8; 32]);
                Some(("one-evaluation-more".into(), v))
            }
        },
        Dec::Polynomial => {
            if v.len() < 32 {
                return None;
            }
            let k = v.len() / 32;
            let i = 32 * (rng.next_u32() as usize % k);
            let (c, b) = mutate::hostile_scalar(rng, &valid[i..i + 32]);
            v[i..i + 32].copy_from_slice(&b);
            Some((format!("coefficient:{c}"), v))
        }
    }
}

fn scalars_canonical(b: &[u8]) -> bool {
    b.chunks_exact(32).all(|c| {
        let mut a = [0u8; 32];
        a.copy_from_slice(c);
        Option::<BlsScalar>::from(BlsScalar::from_bytes(&a)).is_some()
    })
}

fn g1_compressed_valid(b: &[u8]) -> bool {
    let mut a = [0u8; 48];
    a.copy_from_slice(&b[..48]);
    match G1Affine::from_bytes(&a) {
        Ok(p) => p.to_bytes() == a,
        Err(_) => false,
    }
}

fn g2_compressed_valid_nonidentity(b: &[u8]) -> bool {
    let mut a = [0u8; 96];
    a.copy_from_slice(&b[..96]);
    match G2Affine::from_bytes(&a) {
        Ok(p) => p.to_bytes() == a && !bool::from(p.is_identity()),
        Err(_) => false,
    }
}

/// Independent validity check of one raw (97-byte) G1 encoding.
fn g1_raw_valid(b: &[u8]) -> Result<(), &'static str> {
    if b[96] > 1 {
        return Err("infinity flag not 0/1");
    }
    if !limbs_lt_modulus(&le_limbs(&b[0..48])) {
        return Err("x limbs not reduced");
    }
    if !limbs_lt_modulus(&le_limbs(&b[48..96])) {
        return Err("y limbs not reduced");
    }
    // Safety: flag and limbs validated above; the point is checked below.
    let p = unsafe { G1Affine::from_slice_unchecked(b) };
    // canonical compressed round trip checks curve and subgroup membership
    match G1Affine::from_bytes(&p.to_bytes()) {
        Ok(q) if q == p => Ok(()),
        Ok(_) => Err("compressed round trip gives another point"),
        Err(_) => Err("not an on-curve prime-order point"),
    }
}

/// Validity of an accepted value. Returns a description of the first defect.
fn validity(d: Dec, input: &[u8], val: &Decoded) -> Result<(), String> {
    match val {
        Decoded::Proof(p) => {
            if p.to_bytes()[..] != input[..1008.min(input.len())] {
                return Err("accepted proof re-encodes differently (non-canonical input)".into());
            }
            Ok(())
        }
        Decoded::Verifier(v) => {
            let out = v.to_bytes();
            let vk = rv::parse_verifier(&out).map_err(|e| format!("accepted verifier does not re-parse: {e}"))?;
            let label_len = vk.label.len();
            let vk_off = 48 + label_len;
            // canonicity of what was read: commitments and opening key
            if input.len() >= vk_off + 8 + 15 * 48 && input[vk_off + 8..vk_off + 8 + 15 * 48] != out[vk_off + 8..vk_off + 8 + 15 * 48] {
                return Err("verifier-key commitments re-encode differently".into());
            }
            for i in 0..15 {
                if !g1_compressed_valid(&out[vk_off + 8 + 48 * i..]) {
                    return Err(format!("commitment {i} invalid"));
                }
            }
            let ok_off = vk_off + 8 + 20 * 48;
            if !g1_compressed_valid(&out[ok_off..]) || bool::from(vk.g.is_identity()) {
                return Err("opening key g invalid".into());
            }
            if !g2_compressed_valid_nonidentity(&out[ok_off + 48..]) || !g2_compressed_valid_nonidentity(&out[ok_off + 144..]) {
                return Err("opening key G2 element invalid".into());
            }
            Ok(())
        }
        Decoded::Prover(p) => {
            let out = p.to_bytes();
            let label_len = u64::from_be_bytes(out[0..8].try_into().unwrap()) as usize;
            let pk_len = u64::from_be_bytes(out[8..16].try_into().unwrap()) as usize;
            let ck_len = u64::from_be_bytes(out[16..24].try_into().unwrap()) as usize;
            let pk_off = 48 + label_len;
            let ck_off = pk_off + pk_len;
            let vk_off = ck_off + ck_len;
            // the commit key is what was read: check it on the *input* bytes
            // too (a decoder that normalises silently would hide a defect)
            for (which, src) in [("re-encoded", &out[..]), ("input", input)] {
                if src.len() < ck_off + ck_len {
                    continue;
                }
                let ck = &src[ck_off..ck_off + ck_len];
                for (i, c) in ck[8..].chunks_exact(97).enumerate() {
                    g1_raw_valid(c).map_err(|e| format!("commit key point {i} ({which}): {e}"))?;
                }
            }
            validity(Dec::ProverKey, &out[pk_off..ck_off], &Decoded::Bytes(out[pk_off..ck_off].to_vec()))?;
            for i in 0..15 {
                if !g1_compressed_valid(&out[vk_off + 8 + 48 * i..]) {
                    return Err(format!("verifier-key commitment {i} invalid"));
                }
            }
            Ok(())
        }
        Decoded::Params(pp) => {
            let out = pp.to_var_bytes();
            if out[..] != input[..out.len().min(input.len())] || out.len() != input.len() {
                return Err("parameters re-encode differently".into());
            }
            if !g1_compressed_valid(&out[0..]) || !g2_compressed_valid_nonidentity(&out[48..]) || !g2_compressed_valid_nonidentity(&out[144..]) {
                return Err("opening key invalid".into());
            }
            let g = G1Affine::from_slice(&out[0..48]).unwrap();
            if bool::from(g.is_identity()) {
                return Err("opening key g is the identity".into());
            }
            for (i, c) in out[240..].chunks_exact(48).enumerate() {
                if !g1_compressed_valid(c) {
                    return Err(format!("power {i} invalid"));
                }
            }
            Ok(())
        }
        Decoded::CommitKey(ck) => {
            if d == Dec::CommitKeyRaw {
                for (i, c) in input[8..].chunks_exact(97).enumerate() {
                    g1_raw_valid(c).map_err(|e| format!("point {i}: {e}"))?;
                }
                if ck.to_raw_var_bytes() != input {
                    return Err("commit key re-encodes differently".into());
                }
            } else {
                let out = ck.to_var_bytes();
                if out != input {
                    return Err("commit key re-encodes differently".into());
                }
                for (i, c) in out.chunks_exact(48).enumerate() {
                    if !g1_compressed_valid(c) {
                        return Err(format!("point {i} invalid"));
                    }
                }
            }
            Ok(())
        }
        Decoded::OpeningKey(ok) => {
            let out = dv::opening_key_to_bytes(ok);
            if out[..] != input[..240.min(input.len())] {
                return Err("opening key re-encodes differently".into());
            }
            let g = G1Affine::from_slice(&out[0..48]).map_err(|_| "g undecodable".to_string())?;
            if bool::from(g.is_identity()) || !g2_compressed_valid_nonidentity(&out[48..]) || !g2_compressed_valid_nonidentity(&out[144..]) {
                return Err("identity or invalid element in opening key".into());
            }
            Ok(())
        }
        Decoded::Bytes(out) => match d {
            Dec::VerifierKey => {
                for i in 0..15 {
                    if !g1_compressed_valid(&out[8 + 48 * i..]) {
                        return Err(format!("commitment {i} invalid"));
                    }
                }
                if input.len() >= 8 + 15 * 48 && input[..8 + 15 * 48] != out[..8 + 15 * 48] {
                    return Err("verifier key re-encodes differently".into());
                }
                Ok(())
            }
            _ => {
                // prover key: walk the structure
                let n = u64::from_le_bytes(out[0..8].try_into().unwrap()) as usize;
                let eval_size = u64::from_le_bytes(out[8..16].try_into().unwrap()) as usize;
                if !n.is_power_of_two() {
                    return Err("prover key n is not a power of two".into());
                }
                let canon_domain = dv::canonical_domain_bytes(8 * n).map_err(|e| format!("{e:?}"))?;
                if eval_size != 172 + 32 * 8 * n {
                    return Err("evaluation block size is not that of the 8n domain".into());
                }
                let mut off = 16;
                for k in 0..15 {
                    let len = u64::from_le_bytes(out[off..off + 8].try_into().unwrap()) as usize;
                    off += 8;
                    if len > n {
                        return Err(format!("polynomial {k} has {len} > n coefficients"));
                    }
                    if !scalars_canonical(&out[off..off + 32 * len]) {
                        return Err(format!("polynomial {k} has a non-canonical coefficient"));
                    }
                    off += 32 * len;
                    if out[off..off + 172] != canon_domain[..] {
                        return Err(format!("evaluations {k}: non-canonical domain"));
                    }
                    if !scalars_canonical(&out[off + 172..off + eval_size]) {
                        return Err(format!("evaluations {k}: non-canonical scalar"));
                    }
                    off += eval_size;
                }
                for k in 0..2 {
                    if out[off..off + 172] != canon_domain[..] {
                        return Err(format!("tail evaluations {k}: non-canonical domain"));
                    }
                    if !scalars_canonical(&out[off + 172..off + eval_size]) {
                        return Err(format!("tail evaluations {k}: non-canonical scalar"));
                    }
                    off += eval_size;
                }
                Ok(())
            }
        },
        Decoded::Evaluations(domain, evals) => {
            let size = u64::from_le_bytes(domain[0..8].try_into().unwrap()) as usize;
            if !size.is_power_of_two() || evals.len() != size {
                return Err("evaluation count is not the domain size".into());
            }
            let canon = dv::canonical_domain_bytes(size).map_err(|e| format!("{e:?}"))?;
            if canon != *domain {
                return Err("non-canonical domain accepted".into());
            }
            if !scalars_canonical(&input[172..]) {
                return Err("non-canonical evaluation accepted".into());
            }
            Ok(())
        }
        Decoded::Polynomial(_) => {
            if !scalars_canonical(&input[..input.len() / 32 * 32]) || input.len() % 32 != 0 {
                return Err("non-canonical or ragged coefficient accepted".into());
            }
            Ok(())
        }
    }
}

/// Use an accepted value; only panics matter.
fn usability(o: &Originals, val: &Decoded) -> Result<(), String> {
    match val {
        Decoded::Prover(p) => {
            let hc = HC::new(o.spec.prog.clone(), o.spec.inputs.clone());
            let mut rng = crate::mon::rng::fixed_rng(7);
            guard(|| {
                if let Ok((proof, pi)) = p.prove(&mut rng, &hc) {
                    let _ = o.spec.compiled.verifier.verify(&proof, &pi);
                }
            })
        }
        Decoded::Verifier(v) => {
            let proof = Proof::from_slice(&o.spec.proof_v3).unwrap();
            guard(|| {
                let _ = v.verify(&proof, &o.spec.pi);
                let _ = v.verify_with_version(&proof, &o.spec.pi, PlonkVersion::V1);
            })
        }
        Decoded::Params(pp) => guard(|| {
            let _ = pp.max_degree();
            let _ = dv::pp_trim(pp, 1);
            let _ = pp.to_raw_var_bytes();
            if let Ok(c) = common::compile(pp, b"c17", &o.spec.prog) {
                let mut rng = crate::mon::rng::fixed_rng(8);
                let r = common::prove(&c.prover, &o.spec.prog, &o.spec.inputs, &[], &mut rng, PlonkVersion::V3);
                if let Ok((proof, pi)) = r.result {
                    let _ = common::verify(&c.verifier, &proof, &pi, PlonkVersion::V3);
                }
            }
        }),
        Decoded::CommitKey(ck) => guard(|| {
            let _ = dv::commit_key_max_degree(ck);
            let _ = dv::commit(ck, &[BlsScalar::one(), BlsScalar::from(2u64)]);
            // trimming as the compiler does it: degree = n + 6 with n >= 8
            let _ = dv::commit_key_truncate(ck, 14);
            let _ = dv::commit_key_truncate(ck, dv::commit_key_max_degree(ck).max(2));
        }),
        Decoded::OpeningKey(ok) => guard(|| {
            let g = G1Affine::generator();
            let _ = dv::batch_check(ok, &[BlsScalar::one()], &[(g, BlsScalar::one(), g)], &mut Transcript::new(b"c17"));
        }),
        _ => Ok(()),
    }
}

pub fn run(tier: Tier, seed: u64) -> i32 {
    let ev = Ev::new("C17", tier, seed);
    ev.set_rule(
        "cases = (decoder, mutated byte string): generic mutations (bit flips, byte sets, truncation, \
         extension, splices, windows) and structure-aware ones (length fields, raw / compressed group \
         encodings, scalars >= r, domain headers) of valid encodings; each is decoded under panic capture, \
         a counting allocator and a timer; accepted values are validated independently (canonical limbs, \
         on-curve prime-order points, non-identity opening keys, canonical domains, degrees) and then used; \
         non-trivial = the input passed the outermost length framing (decoder got past its first length \
         check: measured as 'not NotEnoughBytes'); distinct = fingerprint of (decoder, mutation, input digest)",
    );
    ev.assume("build has debug assertions and overflow checks on (profile of the project's test suite)");
    ev.assume("a process abort (stack overflow, allocation failure) would end the run without verdict");

    let n_groups = tier.pick(6u64, 24u64);
    let per_decoder = tier.pick(2000u64, 40000u64);
    // specimens (small circuits, small SRS)
    let groups: Vec<std::sync::Mutex<Option<Originals>>> = (0..n_groups).map(|_| std::sync::Mutex::new(None)).collect();
    par_cases(n_groups, threads(), |gi| {
        let mut rng = case_rng(seed, "C17.spec", gi);
        let rows = [6usize, 10, 20, 26, 50, 120, 250][gi as usize % 7];
        let a = common::specimen(&mut rng, &GenCfg::all(), rows, format!("c17-{gi}").as_bytes());
        let b = common::specimen(&mut rng, &GenCfg::all(), rows + 1, format!("c17-o{gi}").as_bytes());
        match (a, b) {
            (Ok(a), Ok(b)) => {
                let deg = [1usize, 2, 3, 8, 17, 64][gi as usize % 6];
                *groups[gi as usize].lock().unwrap() = Some(originals_for(a, &b, deg));
            }
            (a, b) => ev.violation("C17:specimen-failed", json!({"a": a.err(), "b": b.err()})),
        }
    });
    let groups: Vec<Originals> = groups.into_iter().filter_map(|m| m.into_inner().unwrap()).collect();
    if groups.is_empty() {
        ev.inconclusive("no specimens");
        return ev.finish();
    }

    // calibration: decode every valid original
    let mut calib: Vec<Vec<(usize, Duration)>> = Vec::new();
    for o in &groups {
        let mut row = Vec::new();
        for (d, bytes) in &o.bytes {
            let t0 = Instant::now();
            let (r, region) = alloc::measure(|| decode(*d, bytes));
            let dt = t0.elapsed();
            match r {
                Ok(Ok(val)) => {
                    if let Err(e) = validity(*d, bytes, &val) {
                        ev.violation(&format!("C17:{d:?}:valid-original-fails-validity-oracle"), json!({"why": e}));
                    }
                }
                other => ev.violation(&format!("C17:{d:?}:valid-original-rejected"), json!({"got": format!("{:?}", other.map(|r| r.map(|_| ())))})),
            }
            row.push((region.peak, dt));
        }
        calib.push(row);
    }

    let total = DECODERS.len() as u64 * per_decoder;
    par_cases(total, threads(), |ci| {
        let di = (ci % DECODERS.len() as u64) as usize;
        let d = DECODERS[di];
        let gi = ((ci / DECODERS.len() as u64) % groups.len() as u64) as usize;
        let o = &groups[gi];
        let valid = &o.bytes[di].1;
        let other = &o.other[di].1;
        let mut rng = case_rng(seed, "C17.mut", ci);
        let (class, bytes) = if rng.next_u32() % 8 == 0 {
            // truncate (or cut and pad) exactly at a structural boundary
            let bs = boundaries(d, valid);
            let at = bs[rng.next_u32() as usize % bs.len()];
            let at = match rng.next_u32() % 4 {
                0 => at.saturating_sub(1),
                1 => (at + 1).min(valid.len()),
                _ => at,
            };
            let mut b = valid[..at].to_vec();
            if rng.next_u32() % 4 == 0 {
                b.extend(std::iter::repeat(0u8).take(valid.len() - at));
                ("structured:zero-padded-from-boundary".to_string(), b)
            } else {
                ("structured:truncate-at-boundary".to_string(), b)
            }
        } else if rng.next_u32() % 5 < 3 {
            match structured(d, valid, &mut rng) {
                Some((c, b)) => (format!("structured:{c}"), b),
                None => {
                    let (c, b) = mutate::generic(&mut rng, valid, other);
                    (format!("generic:{c}"), b)
                }
            }
        } else {
            let (c, b) = mutate::generic(&mut rng, valid, other);
            (format!("generic:{c}"), b)
        };
        let class_short = class.split(':').take(2).collect::<Vec<_>>().join(":");
        let t0 = Instant::now();
        let (r, region) = alloc::measure(|| decode(d, &bytes));
        let dt = t0.elapsed();
        let (cal_peak, cal_dt) = calib[gi][di];
        let digest = crate::util::blake_hex(&bytes);
        let outcome = match &r {
            Ok(Ok(_)) => "accepted".to_string(),
            Ok(Err(e)) => format!("Err({})", e.split(['(', '{', ' ']).next().unwrap_or("")),
            Err(p) => format!("PANIC@{}", panic_site(p)),
        };
        let framed = !outcome.contains("NotEnoughBytes");
        ev.case_fp(&format!("{d:?}|{class}|{digest}"), framed);
        if ci < 40 {
            ev.sample(json!({"decoder": format!("{d:?}"), "mutation": class, "len": bytes.len(), "outcome": outcome, "peak_alloc": region.peak}));
        }
        ev.bucket(&format!("decoder.{d:?}"));
        if framed {
            ev.bucket(&format!("framed.{d:?}"));
        }
        ev.bucket(&format!("mutator.{}", class_short.split(':').nth(1).unwrap_or("").split(['[', '=', '+', '-', '*']).next().unwrap_or("")));
        let detail = || json!({"decoder": format!("{d:?}"), "mutation": class, "outcome": outcome, "input_len": bytes.len(),
            "input": if bytes.len() <= 4096 { hex::encode(&bytes) } else { format!("{}…(digest {digest})", hex::encode(&bytes[..256])) },
            "group": gi, "peak": region.peak, "calibrated_peak": cal_peak});
        match r {
            Err(p) => {
                ev.violation(&format!("C17:{d:?}:panic:{}:{}", panic_site(&p), class_short), detail());
            }
            Ok(Err(_)) => ev.bucket("rejected"),
            Ok(Ok(val)) => {
                ev.bucket("accepted");
                ev.bucket(&format!("accepted.{d:?}"));
                if bytes != *valid {
                    ev.bucket(&format!("accepted_mutated.{d:?}"));
                }
                if let Err(why) = validity(d, &bytes, &val) {
                    let w = why.split(|c: char| c.is_ascii_digit()).next().unwrap_or("").trim().to_string();
                    ev.violation(&format!("C17:{d:?}:accepted-malformed:{}:{}", class_short, w), json!({"why": why, "case": detail()}));
                }
                if let Err(p) = usability(o, &val) {
                    ev.violation(&format!("C17:{d:?}:accepted-value-panics-in-use:{}:{}", panic_site(&p), class_short), json!({"panic": p, "case": detail()}));
                }
            }
        }
        // boundedness: allocation relative to the valid original (scaled by
        // the length ratio for extended inputs)
        if alloc::enabled() {
            let scale = (bytes.len() as f64 / valid.len().max(1) as f64).max(1.0);
            let bound = (4.0 * cal_peak as f64 * scale) as usize + (1 << 20);
            if region.peak > bound {
                ev.violation(&format!("C17:{d:?}:allocation-beyond-bound:{class_short}"), json!({"bound": bound, "case": detail()}));
            }
        }
        if dt > Duration::from_secs(2).max(cal_dt * 100) {
            // reproduce in isolation before calling it a hang
            let mut slow = 1;
            for _ in 0..2 {
                let t = Instant::now();
                let _ = decode(d, &bytes);
                if t.elapsed() > Duration::from_secs(2).max(cal_dt * 100) {
                    slow += 1;
                }
            }
            if slow == 3 {
                ev.violation(&format!("C17:{d:?}:decode-time-unbounded:{class_short}"), json!({"seconds": dt.as_secs_f64(), "case": detail()}));
            } else {
                ev.bucket("slow_once_not_reproduced");
            }
        }
    });

    // ---- compressed circuit descriptions: generic mutations at both levels ----
    let n_cc = tier.pick(3000u64, 60000u64);
    par_cases(n_cc, threads(), |ci| {
        let gi = (ci % groups.len() as u64) as usize;
        let o = &groups[gi];
        let mut rng = case_rng(seed, "C17.cc", ci);
        let Ok(valid) = common::compress(&o.spec.prog) else { return };
        let Ok(other) = common::compress(&groups[(gi + 1) % groups.len()].spec.prog) else { return };
        let deg = common::min_degree(o.spec.rows);
        let pp = crate::util::pp(deg);
        let m = crate::gen::cc::max_constraints(pp.max_degree());
        let pick = rng.next_u32() % 8;
        let (class, bytes) = if pick < 2 {
            // a non-canonical field element in the scalar table, referenced or
            // not (value + r, r itself, all-ones)
            match crate::gen::cc::CC::from_compressed(&valid) {
                Some(mut c) => {
                    let r_le: [u8; 32] = {
                        let mut b = (-BlsScalar::one()).to_bytes();
                        // r - 1 + 1: increment little-endian
                        for x in b.iter_mut() {
                            let (v, o) = x.overflowing_add(1);
                            *x = v;
                            if !o {
                                break;
                            }
                        }
                        b
                    };
                    let mut small_plus_r = r_le;
                    small_plus_r[0] = small_plus_r[0].wrapping_add(4); // r + 4 (no carry: low byte of r is 0x01)
                    let bad = [[0xffu8; 32], r_le, small_plus_r][rng.next_u32() as usize % 3];
                    let referenced = !c.scalars.is_empty() && rng.next_u32() % 2 == 0;
                    if referenced {
                        let i = rng.next_u32() as usize % c.scalars.len();
                        c.scalars[i] = bad;
                    } else {
                        c.scalars.push(bad);
                    }
                    (format!("structured:non-canonical-scalar-{}", if referenced { "referenced" } else { "unreferenced" }), c.to_compressed())
                }
                None => {
                    let (c, b) = mutate::generic(&mut rng, &valid, &other);
                    (format!("compressed:{c}"), b)
                }
            }
        } else if pick < 5 {
            let (c, b) = mutate::generic(&mut rng, &valid, &other);
            (format!("compressed:{c}"), b)
        } else {
            let packed = crate::gen::cc::inflate(&valid).unwrap_or_default();
            let packed_o = crate::gen::cc::inflate(&other).unwrap_or_default();
            let (c, b) = mutate::generic(&mut rng, &packed, &packed_o);
            (format!("packed:{c}"), crate::gen::cc::deflate(&b))
        };
        let (r, region) = alloc::measure(|| guard(|| dv::composer_from_bytes(&bytes, m).map(|c| c.constraints())));
        ev.case_fp(&format!("cc|{class}|{}", crate::util::blake_hex(&bytes)), bytes != valid);
        ev.bucket("decoder.Compressed");
        let detail = || json!({"decoder": "Compressed", "mutation": class, "input": hex::encode(&bytes), "max_constraints": m, "peak": region.peak});
        match r {
            Err(p) => ev.violation(&format!("C17:Compressed:panic:{}:{}", panic_site(&p), class), detail()),
            Ok(Err(_)) => ev.bucket("rejected"),
            Ok(Ok(rows)) => {
                ev.bucket("accepted.Compressed");
                if bytes != valid {
                    ev.bucket("accepted_mutated.Compressed");
                }
                if rows > m {
                    ev.violation("C17:Compressed:accepted-beyond-capacity", detail());
                }
                if class.starts_with("structured:non-canonical-scalar") {
                    ev.violation(&format!("C17:Compressed:accepted-malformed:{}", class.trim_start_matches("structured:")), detail());
                }
                ev.bucket(&format!("cc_class.{}", class.split(':').next().unwrap_or("")));
                match guard(|| dusk_plonk::prelude::Compiler::compile_with_compressed(&pp, b"c17cc", &bytes)) {
                    Ok(_) => {}
                    Err(p) => ev.violation(&format!("C17:Compressed:accepted-description-panics-on-compile:{}", panic_site(&p)), detail()),
                }
            }
        }
        if alloc::enabled() && region.peak > 4 * (m * 2000 + valid.len() * 64) + (1 << 20) {
            ev.violation(&format!("C17:Compressed:allocation-beyond-capacity-bound:{class}"), detail());
        }
    });

    super::c18::sanitizer_summary(&ev, "C17");
    fuzz_summary(&ev);
    for d in DECODERS {
        ev.floor(&format!("inputs past the length framing: {d:?}"), ev.bucket_get(&format!("framed.{d:?}")), tier.pick(150, 500));
    }
    let accepted_mutated = DECODERS.iter().filter(|d| ev.bucket_get(&format!("accepted_mutated.{d:?}")) > 0).count();
    ev.floor("decoders with >= 1 accepted mutated input", accepted_mutated as u64, 8);
    ev.floor("compressed-circuit inputs", ev.bucket_get("decoder.Compressed"), tier.pick(2000, 40000));
    ev.floor("rejected inputs", ev.bucket_get("rejected"), tier.pick(2000, 20000));
    ev.finish()
}

// ---------------------------------------------------------------------------
// Coverage-guided workload (libFuzzer target `harness/fuzz`, thorough tier).
// ---------------------------------------------------------------------------

fn fuzz_originals() -> &'static Originals {
    static O: std::sync::OnceLock<Originals> = std::sync::OnceLock::new();
    O.get_or_init(|| {
        crate::util::PP_MIN_SETUP.store(64, std::sync::atomic::Ordering::Relaxed);
        let mut rng = crate::mon::rng::fixed_rng(0xF022);
        let a = common::specimen(&mut rng, &GenCfg::all(), 12, b"c17-fuzz").expect("fuzz specimen");
        let b = common::specimen(&mut rng, &GenCfg::all(), 13, b"c17-fuzz-o").expect("fuzz specimen");
        originals_for(a, &b, 17)
    })
}

/// One coverage-guided input: `sel` picks the decoder (one extra slot for the
/// compressed-circuit decoder), `bytes` is its input. The oracle of the main
/// workload minus the calibrated allocation bound (libFuzzer's malloc limit
/// stands in for it): no panic, accepted values independently valid and
/// usable.
pub fn fuzz_warm_up() {
    let _ = fuzz_originals();
}

pub fn fuzz_one(sel: u8, bytes: &[u8]) -> Result<(), String> {
    let o = fuzz_originals();
    let idx = sel as usize % (DECODERS.len() + 1);
    if idx == DECODERS.len() {
        let deg = common::min_degree(o.spec.rows);
        let pp = crate::util::pp(deg);
        let m = crate::gen::cc::max_constraints(pp.max_degree());
        return match guard(|| dv::composer_from_bytes(bytes, m).map(|c| c.constraints())) {
            Err(p) => Err(format!("Compressed:panic:{}", panic_site(&p))),
            Ok(Err(_)) => Ok(()),
            Ok(Ok(rows)) => {
                if rows > m {
                    return Err("Compressed:accepted-beyond-capacity".into());
                }
                match guard(|| dusk_plonk::prelude::Compiler::compile_with_compressed(&pp, b"c17fz", bytes)) {
                    Ok(_) => Ok(()),
                    Err(p) => Err(format!("Compressed:accepted-description-panics-on-compile:{}", panic_site(&p))),
                }
            }
        };
    }
    let d = DECODERS[idx];
    match decode(d, bytes) {
        Err(p) => Err(format!("{d:?}:panic:{}", panic_site(&p))),
        Ok(Err(_)) => Ok(()),
        Ok(Ok(val)) => {
            validity(d, bytes, &val).map_err(|w| format!("{d:?}:accepted-malformed:{w}"))?;
            usability(o, &val).map_err(|p| format!("{d:?}:accepted-value-panics-in-use:{}", panic_site(&p)))?;
            Ok(())
        }
    }
}

/// `vh C17 --sub corpus:<dir>`: valid encodings (selector byte in front) as
/// the seed corpus of the fuzz target.
pub fn write_corpus(dir: &str) -> i32 {
    let _ = std::fs::create_dir_all(dir);
    let o = fuzz_originals();
    let mut n = 0;
    for (set, tag) in [(&o.bytes, "a"), (&o.other, "b")] {
        for (i, (_, b)) in set.iter().enumerate() {
            let mut v = vec![i as u8];
            v.extend_from_slice(b);
            if std::fs::write(format!("{dir}/valid-{tag}-{i}"), &v).is_ok() {
                n += 1;
            }
        }
    }
    if let Ok(c) = common::compress(&o.spec.prog) {
        let mut v = vec![DECODERS.len() as u8];
        v.extend_from_slice(&c);
        let _ = std::fs::write(format!("{dir}/valid-compressed"), &v);
        n += 1;
    }
    println!("CORPUS written={n} dir={dir}");
    0
}

/// Fold the result of the libFuzzer pre-run (driver: `bin/check C17
/// thorough`) into the evidence: every artifact is replayed in-process
/// through `fuzz_one` (crash), the counting allocator (oom) or a threefold
/// timing (timeout); only a reproduced defect is a violation.
fn fuzz_summary(ev: &Ev) {
    let ran = std::env::var("VH_FUZZ_RAN").unwrap_or_default();
    if ran.is_empty() {
        ev.extra("libfuzzer", json!({"ran": false, "why": "not requested (quick tier or VERIF_NO_SANITIZERS=1)"}));
        return;
    }
    let execs: u64 = std::env::var("VH_FUZZ_EXECS").ok().and_then(|s| s.parse().ok()).unwrap_or(0);
    let cov: u64 = std::env::var("VH_FUZZ_COV").ok().and_then(|s| s.parse().ok()).unwrap_or(0);
    let dir = std::env::var("VH_FUZZ_ARTIFACTS").unwrap_or_default();
    let mut arts: Vec<std::path::PathBuf> = std::fs::read_dir(&dir).map(|d| d.flatten().map(|e| e.path()).collect()).unwrap_or_default();
    arts.sort();
    let (mut reproduced, mut not_reproduced) = (0u64, 0u64);
    for path in &arts {
        let name = path.file_name().and_then(|n| n.to_str()).unwrap_or("").to_string();
        let Ok(data) = std::fs::read(path) else { continue };
        if data.is_empty() {
            continue;
        }
        let (sel, bytes) = (data[0], &data[1..]);
        let which = if (sel as usize % (DECODERS.len() + 1)) == DECODERS.len() { "Compressed".to_string() } else { format!("{:?}", DECODERS[sel as usize % (DECODERS.len() + 1)]) };
        let detail = json!({"artifact": name, "decoder": which, "input_len": bytes.len(), "input": hex::encode(&bytes[..bytes.len().min(2048)])});
        if name.starts_with("oom-") {
            let (_, region) = alloc::measure(|| fuzz_one(sel, bytes));
            if alloc::enabled() && region.peak > 64 * bytes.len() + (64 << 20) {
                reproduced += 1;
                ev.violation(&format!("C17:{which}:fuzz:allocation-beyond-bound"), json!({"peak": region.peak, "case": detail}));
            } else {
                not_reproduced += 1;
            }
        } else if name.starts_with("timeout-") || name.starts_with("slow-unit-") {
            let slow = (0..3).filter(|_| {
                let t = Instant::now();
                let _ = fuzz_one(sel, bytes);
                t.elapsed() > Duration::from_secs(5)
            }).count();
            if slow == 3 {
                reproduced += 1;
                ev.violation(&format!("C17:{which}:fuzz:decode-time-unbounded"), detail);
            } else {
                not_reproduced += 1;
            }
        } else {
            match fuzz_one(sel, bytes) {
                Err(why) => {
                    reproduced += 1;
                    let w = why.split(|c: char| c.is_ascii_digit()).next().unwrap_or("").trim_end_matches(':').to_string();
                    ev.violation(&format!("C17:fuzz:{w}"), json!({"why": why, "case": detail}));
                }
                Ok(()) => not_reproduced += 1,
            }
        }
    }
    ev.extra("libfuzzer", json!({"ran": ran, "executions": execs, "coverage_edges": cov, "artifacts": arts.len(), "artifacts_reproduced": reproduced, "artifacts_not_reproduced": not_reproduced}));
    ev.bucket_add("libfuzzer.executions", execs);
    if ran != "ok" {
        ev.inconclusive(&format!("libFuzzer pre-run did not complete: {ran}"));
    } else if not_reproduced > 0 {
        ev.inconclusive(&format!("{not_reproduced} libFuzzer artifact(s) did not reproduce in-process (kept under {dir})"));
    }
}
