//! Shared plumbing between checks: compile / prove / verify a generated
//! program through the real public API, with panic capture and snapshots.

use std::sync::Arc;

use dusk_bls12_381::BlsScalar;
use dusk_plonk::prelude::{
    Circuit, Compiler, Error, PlonkVersion, Proof, Prover, PublicParameters, Verifier,
};
use dusk_plonk::verif::Snapshot;
use rand_core::{CryptoRng, RngCore};

use crate::gen::program::{set_current, take_last, Inputs, Program, Regs, Tamper, HC};
use crate::mon::panic::guard;

pub struct Compiled {
    pub prover: Prover,
    pub verifier: Verifier,
    /// snapshot of the default instance that was compiled
    pub layout: Snapshot,
}

#[derive(Debug)]
pub enum Fail {
    Err(Error),
    Panic(String),
}

impl Fail {
    pub fn text(&self) -> String {
        match self {
            Fail::Err(e) => format!("Err({e:?})"),
            Fail::Panic(p) => format!("PANIC({p})"),
        }
    }
}

/// `Compiler::compile::<HC>` with `prog` as the thread's current program.
pub fn compile(pp: &PublicParameters, label: &[u8], prog: &Arc<Program>) -> Result<Compiled, Fail> {
    set_current(prog.clone());
    let _ = take_last();
    match guard(|| Compiler::compile::<HC>(pp, label)) {
        Ok(Ok((prover, verifier))) => {
            let (layout, _) = take_last().expect("compile ran the circuit");
            Ok(Compiled { prover, verifier, layout })
        }
        Ok(Err(e)) => Err(Fail::Err(e)),
        Err(p) => Err(Fail::Panic(p)),
    }
}

/// `HC::compress()` (static, uses Default) for `prog`.
pub fn compress(prog: &Arc<Program>) -> Result<Vec<u8>, Fail> {
    set_current(prog.clone());
    match guard(HC::compress) {
        Ok(Ok(b)) => Ok(b),
        Ok(Err(e)) => Err(Fail::Err(e)),
        Err(p) => Err(Fail::Panic(p)),
    }
}

pub struct Proved {
    pub result: Result<(Proof, Vec<BlsScalar>), Fail>,
    /// snapshot of the instance the prover built (None if circuit() failed)
    pub instance: Option<(Snapshot, Regs)>,
}

pub fn prove<R: RngCore + CryptoRng>(
    prover: &Prover,
    prog: &Arc<Program>,
    inputs: &Inputs,
    tamper: &[Tamper],
    rng: &mut R,
    version: PlonkVersion,
) -> Proved {
    let hc = HC::new(prog.clone(), inputs.clone()).with_tamper(tamper.to_vec());
    let _ = take_last();
    let r = guard(|| prover.prove_with_version(rng, &hc, version));
    let instance = take_last();
    let result = match r {
        Ok(Ok(x)) => Ok(x),
        Ok(Err(e)) => Err(Fail::Err(e)),
        Err(p) => Err(Fail::Panic(p)),
    };
    Proved { result, instance }
}

pub fn verify(verifier: &Verifier, proof: &Proof, pi: &[BlsScalar], version: PlonkVersion) -> Result<(), Fail> {
    match guard(|| verifier.verify_with_version(proof, pi, version)) {
        Ok(Ok(())) => Ok(()),
        Ok(Err(e)) => Err(Fail::Err(e)),
        Err(p) => Err(Fail::Panic(p)),
    }
}

/// Build the instance without proving (same code path as `Composer::prove`
/// minus the size check): snapshot or the error of `circuit()`.
pub fn build_instance(prog: &Arc<Program>, inputs: &Inputs, tamper: &[Tamper]) -> Result<(Snapshot, Regs), Fail> {
    let hc = HC::new(prog.clone(), inputs.clone()).with_tamper(tamper.to_vec());
    let _ = take_last();
    let mut c = dusk_plonk::prelude::Composer::initialized();
    match guard(|| hc.circuit(&mut c)) {
        Ok(Ok(())) => Ok(take_last().expect("snapshot recorded")),
        Ok(Err(e)) => Err(Fail::Err(e)),
        Err(p) => Err(Fail::Panic(p)),
    }
}

/// Smallest `setup` degree whose parameters admit a circuit with `rows`
/// constraints: trim needs (rows+6).next_power_of_two() + 6 <= degree + 6.
pub fn min_degree(rows: usize) -> usize {
    (rows + 6).next_power_of_two()
}
