//! Shared plumbing between checks: compile / prove / verify a generated
//! program through the real public API, with panic capture and snapshots.

use std::sync::Arc;

use dusk_bls12_381::BlsScalar;
use dusk_plonk::prelude::{
    Circuit, Compiler, Error, PlonkVersion, Proof, Prover, PublicParameters, Verifier,
};
use dusk_plonk::verif::Snapshot;
use rand_core::{CryptoRng, RngCore};

use crate::gen::program::{set_current, take_last, Inputs, Program, Regs, Tamper, HC};
use crate::mon::panic::guard;

pub struct Compiled {
    pub prover: Prover,
    pub verifier: Verifier,
    /// snapshot of the default instance that was compiled
    pub layout: Snapshot,
}

#[derive(Debug)]
pub enum Fail {
    Err(Error),
    Panic(String),
}

impl Fail {
    pub fn text(&self) -> String {
        match self {
            Fail::Err(e) => format!("Err({e:?})"),
            Fail::Panic(p) => format!("PANIC({p})"),
        }
    }
}

/// `Compiler::compile::<HC>` with `prog` as the thread's current program.
pub fn compile(pp: &PublicParameters, label: &[u8], prog: &Arc<Program>) -> Result<Compiled, Fail> {
    set_current(prog.clone());
    let _ = take_last();
    match guard(|| Compiler::compile::<HC>(pp, label)) {
        Ok(Ok((prover, verifier))) => {
            let (layout, _) = take_last().expect("compile ran the circuit");
            Ok(Compiled { prover, verifier, layout })
        }
        Ok(Err(e)) => Err(Fail::Err(e)),
        Err(p) => Err(Fail::Panic(p)),
    }
}

/// `HC::compress()` (static, uses Default) for `prog`.
pub fn compress(prog: &Arc<Program>) -> Result<Vec<u8>, Fail> {
    set_current(prog.clone());
    match guard(HC::compress) {
        Ok(Ok(b)) => Ok(b),
        Ok(Err(e)) => Err(Fail::Err(e)),
        Err(p) => Err(Fail::Panic(p)),
    }
}

pub struct Proved {
    pub result: Result<(Proof, Vec<BlsScalar>), Fail>,
    /// snapshot of the instance the prover built (None if circuit() failed)
    pub instance: Option<(Snapshot, Regs)>,
}

pub fn prove<R: RngCore + CryptoRng>(
    prover: &Prover,
    prog: &Arc<Program>,
    inputs: &Inputs,
    tamper: &[Tamper],
    rng: &mut R,
    version: PlonkVersion,
) -> Proved {
    let hc = HC::new(prog.clone(), inputs.clone()).with_tamper(tamper.to_vec());
    let _ = take_last();
    let r = guard(|| prover.prove_with_version(rng, &hc, version));
    let instance = take_last();
    let result = match r {
        Ok(Ok(x)) => Ok(x),
        Ok(Err(e)) => Err(Fail::Err(e)),
        Err(p) => Err(Fail::Panic(p)),
    };
    Proved { result, instance }
}

pub fn verify(verifier: &Verifier, proof: &Proof, pi: &[BlsScalar], version: PlonkVersion) -> Result<(), Fail> {
    match guard(|| verifier.verify_with_version(proof, pi, version)) {
        Ok(Ok(())) => Ok(()),
        Ok(Err(e)) => Err(Fail::Err(e)),
        Err(p) => Err(Fail::Panic(p)),
    }
}

/// Build the instance without proving (same code path as `Composer::prove`
/// minus the size check): snapshot or the error of `circuit()`.
pub fn build_instance(prog: &Arc<Program>, inputs: &Inputs, tamper: &[Tamper]) -> Result<(Snapshot, Regs), Fail> {
    let hc = HC::new(prog.clone(), inputs.clone()).with_tamper(tamper.to_vec());
    let _ = take_last();
    let mut c = dusk_plonk::prelude::Composer::initialized();
    match guard(|| hc.circuit(&mut c)) {
        Ok(Ok(())) => Ok(take_last().expect("snapshot recorded")),
        Ok(Err(e)) => Err(Fail::Err(e)),
        Err(p) => Err(Fail::Panic(p)),
    }
}

/// Smallest `setup` degree whose parameters admit a circuit with `rows`
/// constraints: trim needs (rows+6).next_power_of_two() + 6 <= degree + 6.
pub fn min_degree(rows: usize) -> usize {
    (rows + 6).next_power_of_two()
}

// ---------------------------------------------------------------------------
// Specimens: a compiled random circuit with honest proofs, as bytes.
// ---------------------------------------------------------------------------

use crate::gen::build::{self, GenCfg};
use crate::refimpl::verifier as rv;
use dusk_bytes::{DeserializableSlice, Serializable};

pub struct Specimen {
    pub prog: Arc<Program>,
    pub inputs: Inputs,
    pub compiled: Compiled,
    pub rows: usize,
    pub label: Vec<u8>,
    pub vbytes: Vec<u8>,
    pub proof_v3: Vec<u8>,
    pub proof_v2: Vec<u8>,
    pub pi: Vec<BlsScalar>,
    pub families: Vec<&'static str>,
}

pub fn to_plonk_version(v: rv::Version) -> PlonkVersion {
    match v {
        rv::Version::V1 => PlonkVersion::V1,
        rv::Version::V2 => PlonkVersion::V2,
        rv::Version::V3 => PlonkVersion::V3,
    }
}

/// Random satisfied program of `rows` rows, compiled at its minimal admitting
/// capacity, proved honestly under V3 and V2.
pub fn specimen<R: RngCore + CryptoRng>(rng: &mut R, cfg: &GenCfg, rows: usize, label: &[u8]) -> Result<Specimen, String> {
    let b = build::random_program(rng, cfg, rows);
    let families: Vec<&'static str> = b.families.iter().copied().collect();
    let (prog, inputs) = b.finish();
    let pp = crate::util::pp(min_degree(rows));
    let compiled = compile(&pp, label, &prog).map_err(|f| format!("compile: {}", f.text()))?;
    let p3 = prove(&compiled.prover, &prog, &inputs, &[], rng, PlonkVersion::V3);
    let (proof3, pi) = p3.result.map_err(|f| format!("prove V3: {}", f.text()))?;
    let p2 = prove(&compiled.prover, &prog, &inputs, &[], rng, PlonkVersion::V2);
    let (proof2, _) = p2.result.map_err(|f| format!("prove V2: {}", f.text()))?;
    let vbytes = compiled.verifier.to_bytes();
    Ok(Specimen {
        prog,
        inputs,
        rows,
        label: label.to_vec(),
        vbytes,
        proof_v3: proof3.to_bytes().to_vec(),
        proof_v2: proof2.to_bytes().to_vec(),
        pi,
        families,
        compiled,
    })
}

#[derive(Debug, Clone, PartialEq, Eq)]
pub enum RealDecision {
    Accept,
    Reject(String),
    Panic(String),
}

impl RealDecision {
    pub fn accepts(&self) -> bool {
        matches!(self, RealDecision::Accept)
    }
}

/// The real decision on a (verifier bytes, proof bytes, public inputs,
/// version) triple: decode both with the checked decoders, then verify.
pub fn real_decide(vbytes: &[u8], pbytes: &[u8], pi: &[BlsScalar], version: PlonkVersion) -> RealDecision {
    let r = guard(|| -> Result<(), Error> {
        let v = Verifier::try_from_bytes(vbytes)?;
        let p = Proof::from_slice(pbytes).map_err(Error::from)?;
        v.verify_with_version(&p, pi, version)
    });
    match r {
        Ok(Ok(())) => RealDecision::Accept,
        Ok(Err(e)) => RealDecision::Reject(format!("{e:?}")),
        Err(p) => RealDecision::Panic(p),
    }
}

/// Same, with an already decoded verifier (hot path for proof mutations).
pub fn real_decide_with(v: &Verifier, pbytes: &[u8], pi: &[BlsScalar], version: PlonkVersion) -> RealDecision {
    let r = guard(|| -> Result<(), Error> {
        let p = Proof::from_slice(pbytes).map_err(Error::from)?;
        v.verify_with_version(&p, pi, version)
    });
    match r {
        Ok(Ok(())) => RealDecision::Accept,
        Ok(Err(e)) => RealDecision::Reject(format!("{e:?}")),
        Err(p) => RealDecision::Panic(p),
    }
}
