//! C07 — circuit shape is independent of witness values; generation is total.
//!
//! Oracle: canonical layout (selectors, wiring relabelled by first use,
//! public-input rows, row count) of program P built with inputs A equals the
//! one built with default inputs, or building returned Err. A panic is a
//! violation.

use std::sync::Arc;

use dusk_bls12_381::BlsScalar;
use dusk_jubjub::{JubJubAffine, JubJubExtended, JubJubScalar, EDWARDS_D, GENERATOR_EXTENDED, GENERATOR_NUMS_EXTENDED};
use rand_core::RngCore;
use serde_json::json;

use super::common::{self, Fail};
use crate::gen::build::{self, GenCfg};
use crate::gen::program::{Inputs, Op, Pi, Program};
use crate::mon::evidence::{Ev, Tier};
use crate::mon::panic::panic_site;
use crate::mon::rng::case_rng;
use crate::refimpl::sat;
use crate::util::{hx, minus_one, par_cases, pool_scalar, pow2, rand_scalar, threads};

fn jubjub_r() -> BlsScalar {
    // order of the prime subgroup as a BLS scalar: (-1 in Fr_jubjub) + 1
    BlsScalar::from(-JubJubScalar::one()) + BlsScalar::one()
}

/// hostile / boundary scalar values
pub fn hostile_scalar(rng: &mut impl RngCore) -> BlsScalar {
    match rng.next_u32() % 16 {
        0 => BlsScalar::zero(),
        1 => BlsScalar::one(),
        2 => minus_one(),
        3 => BlsScalar::from(2u64),
        4 => jubjub_r(),
        5 => jubjub_r() - BlsScalar::one(),
        6 => jubjub_r() + BlsScalar::one(),
        7 => pow2(252) - BlsScalar::one(),
        8 => pow2(252),
        9 => pow2(rng.next_u32() % 255),
        10 => pow2(rng.next_u32() % 255) - BlsScalar::one(),
        11 => pow2(254) + pow2(253),
        12 => BlsScalar::from(rng.next_u64() % 4),
        _ => rand_scalar(rng),
    }
}

fn sqrt_minus_one_points() -> Vec<(BlsScalar, BlsScalar)> {
    // the small-order points of JubJub: (0,1), (0,-1), and (±sqrt(-1)... ) are
    // obtained by multiplying a full-order point by the subgroup order; we
    // derive them from on-curve points found by search in `torsion_points`.
    Vec::new()
}

/// All 8 torsion points, computed by clearing the prime-order component of
/// curve points found by decompression of small byte strings.
pub fn torsion_points() -> Vec<JubJubExtended> {
    let _ = sqrt_minus_one_points();
    let mut out: Vec<JubJubExtended> = vec![JubJubExtended::identity()];
    let r_bits = {
        // subgroup order as little-endian bytes
        use dusk_bytes::Serializable;
        jubjub_r().to_bytes()
    };
    let mut seed = 1u64;
    while out.len() < 8 && seed < 4000 {
        seed += 1;
        let mut b = [0u8; 32];
        b[..8].copy_from_slice(&seed.to_le_bytes());
        let p: Option<JubJubAffine> = JubJubAffine::from_bytes(b).into();
        let Some(p) = p else { continue };
        // [r]P lies in the torsion subgroup
        let t = multiply(&JubJubExtended::from(p), &r_bits);
        let ta = JubJubAffine::from(t);
        if !out.iter().any(|q| JubJubAffine::from(*q) == ta) {
            // close under the group generated so far
            let mut cur = t;
            for _ in 0..8 {
                let ca = JubJubAffine::from(cur);
                if !out.iter().any(|q| JubJubAffine::from(*q) == ca) {
                    out.push(cur);
                }
                cur = cur + t;
            }
        }
    }
    out
}

fn multiply(p: &JubJubExtended, le_bytes: &[u8; 32]) -> JubJubExtended {
    let mut acc = JubJubExtended::identity();
    for byte in le_bytes.iter().rev() {
        for i in (0..8).rev() {
            acc = acc.double();
            if (byte >> i) & 1 == 1 {
                acc = acc + p;
            }
        }
    }
    acc
}

pub fn hostile_point(rng: &mut impl RngCore, torsion: &[JubJubExtended]) -> (JubJubExtended, &'static str) {
    let one = BlsScalar::one();
    let zero = BlsScalar::zero();
    match rng.next_u32() % 12 {
        0 => (JubJubExtended::identity(), "identity"),
        1 => (GENERATOR_EXTENDED * JubJubScalar::from(rng.next_u64()), "subgroup"),
        2 => {
            let t = torsion[rng.next_u32() as usize % torsion.len()];
            (GENERATOR_EXTENDED * JubJubScalar::from(rng.next_u64()) + t, "torsion-coset")
        }
        3 => (torsion[rng.next_u32() as usize % torsion.len()], "torsion"),
        4 => (JubJubExtended::from_raw_unchecked(zero, zero, one, zero, zero), "off-curve(0,0)"),
        5 => {
            let (u, v) = (rand_scalar(rng), rand_scalar(rng));
            (JubJubExtended::from_raw_unchecked(u, v, one, u, v), "off-curve-random")
        }
        6 => {
            // Z = 0
            let (u, v) = (rand_scalar(rng), rand_scalar(rng));
            (JubJubExtended::from_raw_unchecked(u, v, zero, u, v), "z=0")
        }
        7 => {
            // honest point, inconsistent T1*T2
            let p = GENERATOR_EXTENDED * JubJubScalar::from(rng.next_u64());
            let a = JubJubAffine::from(p);
            (JubJubExtended::from_raw_unchecked(a.get_u(), a.get_v(), one, a.get_u() + one, a.get_v()), "bad-t")
        }
        8 => {
            // addition-law pole with itself: d*x^2*y^2 = ±1 → pick x, solve y^2 = 1/(d x^2) if square: use (x, y) with y = 1/(x) * sqrt(1/d)?; fall back to (x, 1/(d x))
            let x = rand_scalar(rng);
            let y = (EDWARDS_D * x * x).invert().unwrap_or(one);
            (JubJubExtended::from_raw_unchecked(x, y, one, x, y), "pole-ish")
        }
        9 => (JubJubExtended::from_raw_unchecked(zero, minus_one(), one, zero, minus_one()), "(0,-1)"),
        10 => {
            let x = rand_scalar(rng);
            (JubJubExtended::from_raw_unchecked(x, zero, one, x, zero), "(x,0)")
        }
        _ => {
            // non-normalised Z
            let p = GENERATOR_NUMS_EXTENDED * JubJubScalar::from(rng.next_u64());
            (p.double(), "subgroup-nonunit-z")
        }
    }
}

/// Single-component programs: (name, program). Inputs: scalars in0..in3,
/// points pt0..pt2.
fn component_programs(tier: Tier, rng: &mut impl RngCore) -> Vec<(String, Program)> {
    let mut v: Vec<(String, Vec<Op>)> = Vec::new();
    let z = BlsScalar::zero();
    let o = BlsScalar::one();
    // registers: 0=ZERO 1=ONE 2..5 = in0..in3 ; points: 0=IDENTITY 1..3 = pt0..pt2
    let pre = || vec![Op::Witness(0), Op::Witness(1), Op::Witness(2), Op::Witness(3), Op::Point(0), Op::Point(1), Op::Point(2)];
    let mut widths = |max: usize, quick_step: usize| -> Vec<usize> {
        match tier {
            Tier::Thorough | Tier::Quick if max <= 256 && quick_step > 0 && true => (0..=max).collect(),
            _ => {
                let mut w: Vec<usize> = (0..=max).step_by(quick_step).collect();
                for e in [0, 1, 2, 3, max.saturating_sub(1), max] {
                    if e <= max && !w.contains(&e) {
                        w.push(e);
                    }
                }
                // rotate a random residue so that all widths get covered over seeds
                let r = rng.next_u32() as usize % quick_step;
                for x in (r..=max).step_by(quick_step) {
                    if !w.contains(&x) {
                        w.push(x);
                    }
                }
                w.sort();
                w
            }
        }
    };
    let mut add = |name: String, ops: Vec<Op>| {
        let mut all = pre();
        all.extend(ops);
        v.push((name, all));
    };
    let s6 = |a: u64, b: u64, c: u64, d: u64, e: u64, f: u64| -> [BlsScalar; 6] {
        [BlsScalar::from(a), BlsScalar::from(b), BlsScalar::from(c), BlsScalar::from(d), BlsScalar::from(e), BlsScalar::from(f)]
    };
    add("append_constant".into(), vec![Op::Constant(BlsScalar::from(7u64))]);
    add("append_public".into(), vec![Op::Public(0)]);
    add("append_gate".into(), vec![Op::Gate { s: s6(1, 2, 3, 4, 5, 6), pi: Pi::Input(1), w: [2, 3, 4, 5] }]);
    add("append_evaluated_output".into(), vec![Op::EvalOut { s: s6(1, 2, 3, 4, 5, 6), pi: Pi::None, w: [2, 3, 4] }]);
    add("append_evaluated_output(q_o=0)".into(), vec![Op::EvalOut { s: s6(1, 2, 3, 0, 5, 6), pi: Pi::Input(0), w: [2, 3, 4] }]);
    add("gate_add".into(), vec![Op::GateAdd { s: s6(0, 1, 1, 0, 1, 3), pi: Pi::None, w: [2, 3, 4] }]);
    add("gate_mul".into(), vec![Op::GateMul { s: s6(1, 0, 0, 0, 1, 3), pi: Pi::Input(2), w: [2, 3, 4] }]);
    add("assert_equal".into(), vec![Op::AssertEq(2, 3)]);
    add("assert_equal_constant".into(), vec![Op::AssertEqConst(2, o, Pi::Input(1))]);
    add("component_boolean".into(), vec![Op::Boolean(2)]);
    add("component_select".into(), vec![Op::Select(2, 3, 4)]);
    add("component_select_one".into(), vec![Op::SelectOne(2, 3)]);
    add("component_select_zero".into(), vec![Op::SelectZero(2, 3)]);
    for n in widths(256, 16) {
        if n >= 1 {
            add(format!("component_decomposition<{n}>"), vec![Op::Decomposition(n, 2)]);
        }
        add(format!("component_range_bits<{n}>"), vec![Op::RangeBits(n, 2)]);
        add(format!("verif_range_check({n})"), vec![Op::RangeSeam(n, 2)]);
    }
    for n in widths(128, 8) {
        add(format!("component_range<{n}>"), vec![Op::RangePairs(n, 2)]);
    }
    for n in [129usize, 130, 140, 200, 256, 1000] {
        add(format!("component_range<{n}>"), vec![Op::RangePairs(n, 2)]);
    }
    for n in widths(127, 8) {
        add(format!("append_logic_and<{n}>"), vec![Op::LogicAnd(n, 2, 3)]);
        add(format!("append_logic_xor<{n}>"), vec![Op::LogicXor(n, 2, 3)]);
    }
    for n in widths(254, 16) {
        add(format!("component_truncate<{n}>"), vec![Op::Truncate(n, 2)]);
    }
    // point components (inputs pt0..pt2 are registers 1..3)
    add("append_point".into(), vec![]);
    add("append_public_point".into(), vec![Op::PublicPoint(0)]);
    add("assert_equal_point".into(), vec![Op::AssertEqPoint(1, 2)]);
    add("assert_equal_public_point".into(), vec![Op::AssertEqPublicPoint(1, 1)]);
    add("assert_torsion_free_point".into(), vec![Op::AssertTorsionFree(1)]);
    add("component_add_point".into(), vec![Op::AddPoint(1, 2)]);
    add("component_sub_point".into(), vec![Op::SubPoint(1, 2)]);
    add("component_neg_point".into(), vec![Op::NegPoint(1)]);
    add("component_select_identity".into(), vec![Op::SelectIdentity(2, 1)]);
    add("component_select_point".into(), vec![Op::SelectPoint(2, 1, 2)]);
    add("component_mul_point".into(), vec![Op::MulPoint(2, 1)]);
    add("component_mul_generator".into(), vec![Op::MulGenerator(2, GENERATOR_EXTENDED)]);
    add("component_mul_generator(nums)".into(), vec![Op::MulGenerator(3, GENERATOR_NUMS_EXTENDED)]);
    add("point_from_regs+add".into(), vec![Op::PointFromRegs(2, 3), Op::PointFromRegs(4, 5), Op::SeamAddPoint(4, 5)]);
    add("point_from_regs+torsion_free".into(), vec![Op::PointFromRegs(2, 3), Op::AssertTorsionFree(4)]);
    add("point_from_regs+mul_point".into(), vec![Op::PointFromRegs(2, 3), Op::MulPoint(4, 4)]);
    let _ = z;
    v.into_iter()
        .map(|(n, ops)| (n, Program { ops, n_scalar_inputs: 4, n_point_inputs: 3, n_digit_inputs: 0 }))
        .collect()
}

fn check_pair(ev: &Ev, name: &str, prog: &Arc<Program>, inputs: &Inputs, input_desc: serde_json::Value, base: &Result<sat::Canon, Fail>) {
    let base_canon = match base {
        Ok(c) => c,
        Err(_) => return,
    };
    let built = common::build_instance(prog, inputs, &[]);
    let differs_from_default = inputs.scalars.iter().any(|s| *s != BlsScalar::zero())
        || inputs.points.iter().any(|p| JubJubAffine::from_raw_unchecked(p.get_u(), p.get_v()) != JubJubAffine::identity() || p.get_z() != BlsScalar::one());
    let desc = json!({"component": name, "inputs": input_desc,
        "result": match &built { Ok(_) => "Ok".to_string(), Err(f) => f.text() }});
    ev.case(&desc, differs_from_default);
    ev.set_insert("components", name.split(['<', '(']).next().unwrap());
    ev.set_insert("component_instances", name);
    match built {
        Ok((snap, _)) => {
            ev.bucket("built_ok");
            let canon = sat::canonical(&snap);
            if canon != *base_canon {
                ev.violation(
                    &format!("C07:shape-depends-on-values:{}", name),
                    json!({"case": desc, "difference": sat::canon_diff(base_canon, &canon), "ops": prog.tags()}),
                );
            }
        }
        Err(Fail::Err(e)) => {
            ev.bucket("built_err");
            ev.set_insert("err_variants", format!("{e:?}").split(['(', '{', ' ']).next().unwrap());
        }
        Err(Fail::Panic(p)) => ev.violation(
            &format!("C07:panic:{}:{}", name.split(['<', '(']).next().unwrap(), panic_site(&p)),
            json!({"case": desc, "panic": p, "ops": prog.tags()}),
        ),
    }
}

pub fn run(tier: Tier, seed: u64) -> i32 {
    let ev = Ev::new("C07", tier, seed);
    ev.set_rule(
        "cases = (component call sequence, input vector): the canonical layout built from the inputs \
         must equal the one built from default inputs (zeros / identity points) or building returns \
         Err; non-trivial = the input vector differs from the default one in >= 1 value; distinct = \
         fingerprint of (component, inputs, result)",
    );
    ev.assume("panics are observed through catch_unwind (profile panic=unwind); a process abort would end the run without a verdict");
    let torsion = torsion_points();
    if torsion.len() != 8 {
        ev.inconclusive(&format!("could not derive the 8 torsion points (got {})", torsion.len()));
        return ev.finish();
    }
    let mut rng0 = case_rng(seed, "C07.progs", 0);
    let comps = component_programs(tier, &mut rng0);
    let value_sets = tier.pick(8u64, 48u64);

    // A. single components x value sets
    par_cases(comps.len() as u64, threads(), |ci| {
        let (name, prog) = &comps[ci as usize];
        let prog = Arc::new(prog.clone());
        let base = common::build_instance(&prog, &Inputs::default_for(&prog), &[]).map(|(s, _)| sat::canonical(&s));
        if let Err(f) = &base {
            match f {
                Fail::Panic(p) => ev.violation(&format!("C07:panic-on-default-inputs:{}:{}", name, panic_site(p)), json!({"component": name, "panic": p})),
                Fail::Err(e) => ev.violation(&format!("C07:default-instance-fails:{name}"), json!({"component": name, "error": format!("{e:?}")})),
            }
            return;
        }
        let mut rng = case_rng(seed, "C07.A", ci);
        for vs in 0..value_sets {
            let mut inp = Inputs::default_for(&prog);
            let mut pdesc = Vec::new();
            for s in inp.scalars.iter_mut() {
                *s = if vs == 0 { pool_scalar(&mut rng) } else { hostile_scalar(&mut rng) };
            }
            // bits: first scalar often boolean-ish / non-boolean
            if vs % 3 == 1 {
                inp.scalars[0] = BlsScalar::from((rng.next_u32() % 3) as u64);
            }
            for p in inp.points.iter_mut() {
                let (pt, d) = if vs == 0 {
                    (GENERATOR_EXTENDED * JubJubScalar::from(rng.next_u64()), "subgroup")
                } else {
                    hostile_point(&mut rng, &torsion)
                };
                *p = pt;
                pdesc.push(d);
                ev.set_insert("point_classes", d);
            }
            let idesc = json!({"scalars": crate::util::hxs(&inp.scalars), "points": pdesc});
            check_pair(&ev, name, &prog, &inp, idesc, &base);
        }
    });

    // A2. twin calls: the component called twice on *different* input
    // witnesses. In the default instance (what gets compiled) all scalar
    // inputs hold 0 and all points the identity, so the two calls see equal
    // values; in a proved instance they do not. Anything a composer remembers
    // by value (a memoised decomposition, a validated-point cache) makes the
    // compiled shape differ from the proved one.
    let twins: Vec<(String, Program)> = comps
        .iter()
        .enumerate()
        .filter(|(i, (n, p))| p.ops.len() == 8 && (!n.contains('<') || i % 7 == 0))
        .map(|(_, (n, p))| {
            let mut ops = p.ops.clone();
            let second = ops[7].map_regs(&|r| if (2..=5).contains(&r) { 2 + (r - 2 + 1) % 4 } else { r }, &|q| if (1..=3).contains(&q) { 1 + q % 3 } else { q });
            ops.push(second);
            (format!("twin:{n}"), Program { ops, n_scalar_inputs: 4, n_point_inputs: 3, n_digit_inputs: 0 })
        })
        .collect();
    par_cases(twins.len() as u64, threads(), |ci| {
        let (name, prog) = &twins[ci as usize];
        let prog = Arc::new(prog.clone());
        let base = common::build_instance(&prog, &Inputs::default_for(&prog), &[]).map(|(s, _)| sat::canonical(&s));
        if let Err(f) = &base {
            if let Fail::Panic(p) = f {
                ev.violation(&format!("C07:panic-on-default-inputs:{}:{}", name, panic_site(p)), json!({"component": name, "panic": p}));
            }
            return;
        }
        let mut rng = case_rng(seed, "C07.A2", ci);
        for vs in 0..3u64 {
            let mut inp = Inputs::default_for(&prog);
            for s in inp.scalars.iter_mut() {
                // small distinct values (pass most range / canonicity guards) or pool values
                *s = if vs == 0 { BlsScalar::from(1 + rng.next_u64() % 200) } else { pool_scalar(&mut rng) };
            }
            for p in inp.points.iter_mut() {
                *p = GENERATOR_EXTENDED * JubJubScalar::from(1 + rng.next_u64());
            }
            ev.bucket("twin_calls");
            check_pair(&ev, name, &prog, &inp, json!({"twin": true, "scalars": crate::util::hxs(&inp.scalars)}), &base);
        }
    });

    // B. random multi-op programs re-run with foreign inputs
    let n_seq = tier.pick(150u64, 1500u64);
    par_cases(n_seq, threads(), |ci| {
        let mut rng = case_rng(seed, "C07.B", ci);
        let mut cfg = GenCfg::all();
        cfg.heavy = ci % 12 == 0;
        let rows = if cfg.heavy { 1200 } else { 10 + rng.next_u32() as usize % 120 };
        let b = build::random_program(&mut rng, &cfg, rows);
        let (prog, honest) = b.finish();
        let base = common::build_instance(&prog, &Inputs::default_for(&prog), &[]).map(|(s, _)| sat::canonical(&s));
        if let Err(f) = &base {
            ev.violation("C07:default-instance-fails:random-program", json!({"ops": prog.tags(), "error": f.text()}));
            return;
        }
        let name = "sequence".to_string();
        check_pair(&ev, &name, &prog, &honest, json!({"kind": "honest", "ci": ci}), &base);
        for k in 0..tier.pick(3, 6) {
            let mut inp = honest.clone();
            for s in inp.scalars.iter_mut() {
                if rng.next_u32() % 2 == 0 {
                    *s = hostile_scalar(&mut rng);
                }
            }
            for p in inp.points.iter_mut() {
                if rng.next_u32() % 2 == 0 {
                    *p = hostile_point(&mut rng, &torsion).0;
                }
            }
            check_pair(&ev, &name, &prog, &inp, json!({"kind": "foreign", "ci": ci, "k": k, "scalars": crate::util::hxs(&inp.scalars)}), &base);
        }
    });

    let _ = hx(&BlsScalar::zero());
    ev.floor("components", ev.set_len("components") as u64, 34);
    ev.floor("component instances (widths)", ev.set_len("component_instances") as u64, 1100);
    ev.floor("Err results", ev.bucket_get("built_err"), 10);
    ev.floor("Ok results", ev.bucket_get("built_ok"), 500);
    ev.floor("point classes", ev.set_len("point_classes") as u64, 10);
    ev.floor("twin calls (same component on two different input witnesses)", ev.bucket_get("twin_calls"), 150);
    ev.finish()
}
