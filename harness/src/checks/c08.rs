//! C08 — arithmetic, equality, boolean and selection components are exact.

use std::sync::Arc;

use dusk_bls12_381::BlsScalar;
use rand_core::RngCore;

use super::gadget::{substitutions, Case, Lab};
use crate::gen::build::sel_pool;
use crate::gen::program::{Inputs, Op, Pi, Program, Sel6};
use crate::mon::evidence::{Ev, Tier};
use crate::mon::rng::case_rng;
use crate::util::{par_cases, pool_scalar, threads};

fn prelude() -> Vec<Op> {
    vec![Op::Witness(0), Op::Witness(1), Op::Witness(2), Op::Witness(3)]
}

fn prog(op: Op, extra_inputs: usize) -> Arc<Program> {
    let mut ops = prelude();
    ops.push(op);
    Arc::new(Program { ops, n_scalar_inputs: 4 + extra_inputs, n_point_inputs: 0, n_digit_inputs: 0 })
}

fn wiring(rng: &mut impl RngCore) -> [usize; 4] {
    // registers 2..=5 are the four inputs; 0/1 are ZERO/ONE
    match rng.next_u32() % 10 {
        0 => [2, 3, 4, 5],
        1 => [2, 2, 4, 5],
        2 => [2, 3, 2, 5],
        3 => [2, 2, 2, 2],
        4 => [2, 3, 4, 0],
        5 => [1, 3, 4, 5],
        6 => [2, 3, 3, 3],
        7 => {
            // the circuit constants ZERO / ONE wired into any position
            let mut w = [2, 3, 4, 5];
            let k = rng.next_u32() as usize % 4;
            w[k] = (rng.next_u32() % 2) as usize;
            if rng.next_u32() % 3 == 0 {
                w[(k + 1) % 4] = (rng.next_u32() % 2) as usize;
            }
            w
        }
        _ => [
            2 + rng.next_u32() as usize % 4,
            2 + rng.next_u32() as usize % 4,
            2 + rng.next_u32() as usize % 4,
            2 + rng.next_u32() as usize % 4,
        ],
    }
}

fn reg_val(inp: &Inputs, r: usize) -> BlsScalar {
    match r {
        0 => BlsScalar::zero(),
        1 => BlsScalar::one(),
        _ => inp.scalars[r - 2],
    }
}

pub fn run(tier: Tier, seed: u64) -> i32 {
    let ev = Ev::new("C08", tier, seed);
    ev.set_rule(
        "cases = (component, selector tuple, wiring, public input, input values) judged twice: the honest \
         assignment (documented relation <=> R-SAT satisfied; returned witness = documented value) and \
         adversarial assignments of the component's own witnesses installed at allocation time (satisfied => \
         relation holds and returned values unchanged); non-trivial = honest cases always, adversarial ones \
         when the forged value differs from the honest one; distinct = fingerprint of (component, parameters, \
         adversary, forged values)",
    );
    ev.assume("R-SAT as in C05; input witnesses are pinned (only witnesses allocated by the component are forged)");
    let lab = Lab { ev: &ev, id: "C08", seed };
    let n = tier.pick(13000u64, 260000u64);
    par_cases(n, threads(), |ci| {
        let mut rng = case_rng(seed, "C08", ci);
        let mut inp = Inputs { scalars: (0..4).map(|_| pool_scalar(&mut rng)).collect(), points: vec![], digits: vec![] };
        let w = wiring(&mut rng);
        let (a, b, c, d) = (reg_val(&inp, w[0]), reg_val(&inp, w[1]), reg_val(&inp, w[2]), reg_val(&inp, w[3]));
        let mut s: Sel6 = [sel_pool(&mut rng), sel_pool(&mut rng), sel_pool(&mut rng), sel_pool(&mut rng), sel_pool(&mut rng), sel_pool(&mut rng)];
        let (pi, piv, n_extra) = match rng.next_u32() % 4 {
            0 => (Pi::None, BlsScalar::zero(), 0),
            1 => (Pi::Const(BlsScalar::zero()), BlsScalar::zero(), 0),
            2 => {
                let v = pool_scalar(&mut rng);
                (Pi::Const(v), v, 0)
            }
            _ => {
                let v = pool_scalar(&mut rng);
                inp.scalars.push(v);
                (Pi::Input(4), v, 1)
            }
        };
        let want_true = rng.next_u32() % 2 == 0;
        let kind = ci % 13;
        let case: Case = match kind {
            0 => {
                if want_true {
                    s[5] = -(s[0] * a * b + s[1] * a + s[2] * b + s[3] * c + s[4] * d + piv);
                }
                let rel = s[0] * a * b + s[1] * a + s[2] * b + s[3] * c + s[4] * d + s[5] + piv == BlsScalar::zero();
                Case { component: "append_gate".into(), prog: prog(Op::Gate { s, pi, w }, n_extra), inputs: inp, op: 4, returned: vec![], relation: rel, expected: vec![], note: format!("wiring={w:?}") }
            }
            1 => {
                // invertible or zero output selector
                if rng.next_u32() % 2 == 0 {
                    s[3] = BlsScalar::zero();
                }
                let x = s[0] * a * b + s[1] * a + s[2] * b + s[4] * d + s[5] + piv;
                if s[3] == BlsScalar::zero() {
                    if want_true {
                        s[5] -= x;
                    }
                    let rel = s[0] * a * b + s[1] * a + s[2] * b + s[4] * d + s[5] + piv == BlsScalar::zero();
                    Case { component: "append_evaluated_output(q_o=0)".into(), prog: prog(Op::EvalOut { s, pi, w: [w[0], w[1], w[3]] }, n_extra), inputs: inp, op: 4, returned: vec![], relation: rel, expected: vec![], note: format!("wiring={w:?}") }
                } else {
                    let out = -x * s[3].invert().unwrap();
                    Case { component: "append_evaluated_output".into(), prog: prog(Op::EvalOut { s, pi, w: [w[0], w[1], w[3]] }, n_extra), inputs: inp, op: 4, returned: vec![6 + 0], relation: true, expected: vec![out], note: format!("wiring={w:?}") }
                }
            }
            2 | 3 => {
                let out = s[0] * a * b + s[1] * a + s[2] * b + s[4] * d + s[5] + piv;
                let (name, op) = if kind == 2 { ("gate_add", Op::GateAdd { s, pi, w: [w[0], w[1], w[3]] }) } else { ("gate_mul", Op::GateMul { s, pi, w: [w[0], w[1], w[3]] }) };
                Case { component: name.into(), prog: prog(op, n_extra), inputs: inp, op: 4, returned: vec![6], relation: true, expected: vec![out], note: format!("wiring={w:?}") }
            }
            4 => {
                if want_true {
                    inp.scalars[1] = inp.scalars[0];
                }
                let rel = inp.scalars[0] == inp.scalars[1];
                Case { component: "assert_equal".into(), prog: prog(Op::AssertEq(2, 3), 0), inputs: inp, op: 4, returned: vec![], relation: rel, expected: vec![], note: String::new() }
            }
            5 => {
                let k = if want_true { a - piv } else { pool_scalar(&mut rng) };
                let rel = a == k + piv;
                Case { component: "assert_equal_constant".into(), prog: prog(Op::AssertEqConst(w[0], k, pi), n_extra), inputs: inp, op: 4, returned: vec![], relation: rel, expected: vec![], note: format!("a=r{}", w[0]) }
            }
            6 => {
                let k = pool_scalar(&mut rng);
                Case { component: "append_constant".into(), prog: prog(Op::Constant(k), 0), inputs: inp, op: 4, returned: vec![6], relation: true, expected: vec![k], note: String::new() }
            }
            7 => {
                let v = inp.scalars[0];
                Case { component: "append_public".into(), prog: prog(Op::Public(0), 0), inputs: inp, op: 4, returned: vec![6], relation: true, expected: vec![v], note: String::new() }
            }
            8 => {
                if want_true {
                    inp.scalars[0] = BlsScalar::from((rng.next_u32() % 2) as u64);
                }
                let v = inp.scalars[0];
                Case { component: "component_boolean".into(), prog: prog(Op::Boolean(2), 0), inputs: inp, op: 4, returned: vec![], relation: v * v == v, expected: vec![], note: String::new() }
            }
            9 | 10 => {
                if rng.next_u32() % 2 == 0 {
                    inp.scalars[0] = BlsScalar::from((rng.next_u32() % 2) as u64);
                }
                let (bit, x, y) = (reg_val(&inp, w[0]), reg_val(&inp, w[1]), reg_val(&inp, w[2]));
                let out = bit * x + (BlsScalar::one() - bit) * y;
                // component_select allocates 4 witnesses; the returned one is the last
                Case { component: "component_select".into(), prog: prog(Op::Select(w[0], w[1], w[2]), 0), inputs: inp, op: 4, returned: vec![6], relation: true, expected: vec![out], note: format!("wiring={w:?}") }
            }
            11 => {
                let (bit, v) = (reg_val(&inp, w[0]), reg_val(&inp, w[1]));
                Case { component: "component_select_one".into(), prog: prog(Op::SelectOne(w[0], w[1]), 0), inputs: inp, op: 4, returned: vec![6], relation: true, expected: vec![BlsScalar::one() - bit + bit * v], note: format!("wiring={w:?}") }
            }
            _ => {
                let (bit, v) = (reg_val(&inp, w[0]), reg_val(&inp, w[1]));
                Case { component: "component_select_zero".into(), prog: prog(Op::SelectZero(w[0], w[1]), 0), inputs: inp, op: 4, returned: vec![6], relation: true, expected: vec![bit * v], note: format!("wiring={w:?}") }
            }
        };
        ev.bucket(&format!("component.{}.{}", case.component, if case.relation { "sat" } else { "unsat" }));
        if matches!(pi_tag(&case), true) {
            ev.bucket("with_public_input");
        }
        if w[0] == w[1] || w[1] == w[2] {
            ev.bucket("shared_wires");
        }
        // every third case runs inside a context of earlier calls on its operands
        let case = if ci % 3 == 1 { super::gadget::in_context(case, &mut rng, false, &ev) } else { case };
        let Some(h) = lab.honest(&case) else { return };
        for (name, forge) in substitutions(&h, &mut rng, 3, 8) {
            lab.adversary(&case, &h, &name, &forge);
        }
        if ci % 50 == 0 {
            lab.confirm(&case, &h, None);
        }
        if ci % 50 == 25 {
            if let Some((_, forge)) = substitutions(&h, &mut rng, 1, 1).into_iter().next() {
                lab.confirm(&case, &h, Some(&forge));
            }
        }
    });
    for comp in ["append_gate", "append_evaluated_output", "append_evaluated_output(q_o=0)", "gate_add", "gate_mul", "assert_equal", "assert_equal_constant",
        "append_constant", "append_public", "component_boolean", "component_select", "component_select_one", "component_select_zero"] {
        ev.floor(&format!("{comp} satisfied cases"), ev.bucket_get(&format!("component.{comp}.sat")), 20);
    }
    for comp in ["append_gate", "append_evaluated_output(q_o=0)", "assert_equal", "assert_equal_constant", "component_boolean"] {
        ev.floor(&format!("{comp} unsatisfied cases"), ev.bucket_get(&format!("component.{comp}.unsat")), 10);
    }
    ev.floor("adversarial assignments", ev.bucket_get("adversarial"), tier.pick(20000, 400000));
    ev.floor("adversarial assignments found unsatisfied", ev.bucket_get("adversarial.unsatisfied"), tier.pick(15000, 300000));
    ev.floor("end-to-end confirmations", ev.bucket_get("end_to_end"), tier.pick(200, 4000));
    ev.floor("shared wires", ev.bucket_get("shared_wires"), 10);
    ev.floor("near-miss assignments (one sub-identity on one row) refused by the real prover", ev.bucket_get("near_miss.end_to_end"), 20);
    ev.floor("sub-identities covered by near misses", ev.set_len("near_miss_identities") as u64, 1);
    ev.floor("cases run in a context of earlier calls on the operands", ev.bucket_get("context.cases"), 1000);
    ev.floor("copy-constraint-only forgeries on a consumer of the returned witness, through the real prover", ev.bucket_get("copybreak.end_to_end"), 12);
    ev.finish()
}

fn pi_tag(c: &Case) -> bool {
    c.prog.ops.iter().any(|o| matches!(o, Op::Gate { pi, .. } | Op::EvalOut { pi, .. } | Op::GateAdd { pi, .. } | Op::GateMul { pi, .. } | Op::AssertEqConst(_, _, pi) if *pi != Pi::None))
}
