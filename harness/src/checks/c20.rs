//! C20 — KZG commitments and openings are exact.
//!
//! Oracles: SRS consistency by a random linear combination under two
//! pairings; commitments as term-by-term sums; opening decisions as the
//! direct pairing equation per opening.

use dusk_bls12_381::{BlsScalar, G1Affine, G1Projective};
use dusk_plonk::prelude::PublicParameters;
use dusk_plonk::verif as dv;
use merlin::Transcript;
use rand_core::RngCore;
use serde_json::json;

use crate::mon::evidence::{Ev, Tier};
use crate::mon::panic::{guard, panic_site};
use crate::mon::rng::case_rng;
use crate::refimpl::{fft as rf, kzg as rk};
use crate::util::{hx, par_cases, pool_scalar, rand_scalar, threads};

pub fn run(tier: Tier, seed: u64) -> i32 {
    let ev = Ev::new("C20", tier, seed);
    ev.set_rule(
        "cases = (SRS degree, trim size) consistency checks, (key, polynomial) commitments compared \
         with term-by-term sums, and (batch shape, planted error) opening decisions compared with the \
         direct pairing equation per opening; non-trivial = polynomial of degree >= 1 / batch with >= 1 \
         opening / SRS with >= 2 powers; distinct = fingerprint of the case descriptor",
    );
    ev.assume("group law, scalar multiplication and pairing of dusk-bls12_381 are correct");
    ev.assume("batch_check's transcript challenge makes 'accept iff every opening holds' exact up to 2^-250");

    srs_checks(&ev, tier, seed);
    commit_checks(&ev, tier, seed);
    opening_checks(&ev, tier, seed);

    ev.floor("aggregated openings over more than 16 polynomials", ev.set_members_above("aggregate_sizes", 16), tier.pick(3, 6));
    ev.floor("srs degrees", ev.set_len("srs_degrees") as u64, tier.pick(10, 30));
    ev.floor("reference strings of more than 2^13 points", ev.bucket_get("srs.beyond_2^13_points"), 1);
    ev.floor("commit at boundary (Err)", ev.bucket_get("commit.boundary_err"), 5);
    ev.floor("commit at max degree (Ok)", ev.bucket_get("commit.max_degree_ok"), 5);
    ev.floor("batch planted-error positions", ev.set_len("planted") as u64, 15);
    ev.floor("batches accepted", ev.bucket_get("batch.accepted"), 10);
    ev.floor("aggregates containing a zero polynomial", ev.bucket_get("aggregate_with_zero_polynomial"), 5);
    ev.floor("batches rejected", ev.bucket_get("batch.rejected"), 30);
    ev.finish()
}

fn srs_checks(ev: &Ev, tier: Tier, seed: u64) {
    // (the two large degrees come first so that their workers start early: a
    // reference string of more than 2^12 / 2^13 points is where block-wise
    // processing of the powers would begin)
    let mut degrees: Vec<usize> = vec![8200, 4100, 1, 2, 3, 4, 5, 7, 8, 9, 15, 16, 17, 31, 33, 64, 100, 128, 255, 256, 257, 512];
    if tier == Tier::Thorough {
        degrees.splice(0..0, [20000usize, 16390, 8185, 8192]);
        degrees.extend([6, 10, 11, 12, 13, 20, 24, 32, 48, 63, 65, 96, 127, 129, 200, 384, 511, 513, 777, 1024, 1025, 2048]);
    }
    // zero degree must be an error
    match guard(|| PublicParameters::setup(0, &mut case_rng(seed, "C20.srs0", 0))) {
        Ok(Err(_)) => ev.bucket("srs.degree0_err"),
        Ok(Ok(_)) => ev.violation("C20:setup:degree0-accepted", json!({})),
        Err(e) => ev.violation(&format!("C20:setup:panic:{}", panic_site(&e)), json!({"error": e})),
    }
    par_cases(degrees.len() as u64, threads(), |ci| {
        let d = degrees[ci as usize];
        let mut rng = case_rng(seed, "C20.srs", ci);
        let desc = json!({"part": "srs", "degree": d});
        ev.case(&desc, true);
        ev.set_insert("srs_degrees", d);
        if d + 7 > 8192 {
            ev.bucket("srs.beyond_2^13_points");
        }
        let pp = match guard(|| PublicParameters::setup(d, &mut rng)) {
            Ok(Ok(p)) => p,
            other => {
                ev.violation("C20:setup:panic-or-err", json!({"case": desc, "got": format!("{:?}", other.map(|r| r.map(|_| ())))}));
                return;
            }
        };
        let Some(srs) = rk::parse_srs(&pp.to_var_bytes()) else {
            ev.violation("C20:setup:unparseable-parameters", json!({"case": desc}));
            return;
        };
        if srs.powers.len() != d + 7 || pp.max_degree() != d + 6 {
            ev.violation("C20:setup:wrong-length", json!({"case": desc, "powers": srs.powers.len()}));
        }
        let rho: Vec<BlsScalar> = (0..srs.powers.len()).map(|_| rand_scalar(&mut rng)).collect();
        if !rk::srs_consistent(&srs, &rho) {
            ev.violation("C20:setup:inconsistent-powers", json!({"case": desc}));
        }
        if srs.powers.iter().any(|p| bool::from(p.is_identity())) {
            ev.violation("C20:setup:identity-power", json!({"case": desc}));
        }
        // raw encoding carries the same points
        let raw = pp.to_raw_var_bytes();
        let pp2 = unsafe { PublicParameters::from_slice_unchecked(&raw) };
        if pp2.to_var_bytes() != pp.to_var_bytes() {
            ev.violation("C20:srs:raw-encoding-differs", json!({"case": desc}));
        }
        // trims: every n from 1.. such that n + 6 <= max_degree, and one beyond
        let mut trims: Vec<usize> = vec![1, 2, 3, 4, 8, d / 2, d.saturating_sub(1), d, d + 1, d + 7];
        trims.retain(|t| *t >= 1);
        trims.sort();
        trims.dedup();
        for n in trims {
            ev.case(&json!({"part": "trim", "degree": d, "n": n}), true);
            ev.bucket("trim");
            match guard(|| dv::pp_trim(&pp, n)) {
                Ok(Ok((ck, ok))) => {
                    let p = dv::commit_key_powers(&ck);
                    if n + 6 > pp.max_degree() {
                        ev.violation("C20:trim:beyond-degree-accepted", json!({"degree": d, "n": n}));
                        continue;
                    }
                    // long enough for every polynomial of a size-n circuit:
                    // degree n + 6 => n + 7 powers, and a prefix of the SRS
                    if p.len() < n + 7 || p.len() > srs.powers.len() || p != &srs.powers[..p.len()] {
                        ev.violation("C20:trim:not-a-sufficient-prefix", json!({"degree": d, "n": n, "len": p.len()}));
                    }
                    if p.len() != n + 7 {
                        ev.bucket("trim.longer_than_n_plus_7");
                    }
                    let (g, h, xh) = dv::opening_key_parts(&ok);
                    if g != srs.g || h != srs.h || xh != srs.x_h {
                        ev.violation("C20:trim:opening-key-changed", json!({"degree": d, "n": n}));
                    }
                }
                Ok(Err(_)) => {
                    if n + 6 <= pp.max_degree() {
                        ev.violation("C20:trim:admissible-size-rejected", json!({"degree": d, "n": n}));
                    } else {
                        ev.bucket("trim.too_large_err");
                    }
                }
                Err(e) => ev.violation(&format!("C20:trim:panic:{}", panic_site(&e)), json!({"degree": d, "n": n, "error": e})),
            }
        }
    });
}

fn rand_coeffs(rng: &mut impl RngCore, len: usize, mode: u32) -> Vec<BlsScalar> {
    let mut v: Vec<BlsScalar> = (0..len)
        .map(|_| if mode == 1 { pool_scalar(rng) } else { rand_scalar(rng) })
        .collect();
    if mode == 2 {
        // sparse
        for x in v.iter_mut() {
            if rng.next_u32() % 4 != 0 {
                *x = BlsScalar::zero();
            }
        }
    }
    if let Some(l) = v.last_mut() {
        if *l == BlsScalar::zero() {
            *l = BlsScalar::one();
        }
    }
    v
}

fn commit_checks(ev: &Ev, tier: Tier, seed: u64) {
    let n = tier.pick(160u64, 1600u64);
    par_cases(n, threads(), |ci| {
        let mut rng = case_rng(seed, "C20.commit", ci);
        let key_len = [2usize, 3, 4, 8, 9, 16, 33, 64, 130, 257][ci as usize % 10];
        let pp = crate::util::pp(key_len.max(7) - 6 + (ci as usize % 3));
        let full = dv::commit_key_powers(dv::pp_commit_key(&pp)).to_vec();
        let powers = full[..key_len.min(full.len())].to_vec();
        let ck = dv::commit_key_from_powers(powers.clone());
        let max_deg = powers.len() - 1;
        // polynomial length relative to the key
        let plen = match (ci / 10) % 8 {
            0 => 0,
            1 => 1,
            2 => powers.len(),         // degree = max degree: Ok
            3 => powers.len() + 1,     // degree = max + 1: Err
            4 => powers.len() + 2 + (rng.next_u32() as usize % 5),
            5 => powers.len() - 1,
            _ => 1 + rng.next_u32() as usize % powers.len(),
        };
        let mode = rng.next_u32() % 3;
        let a = rand_coeffs(&mut rng, plen, mode);
        let blen = 1 + rng.next_u32() as usize % powers.len();
        let b = rand_coeffs(&mut rng, blen, mode);
        let desc = json!({"part": "commit", "key_len": powers.len(), "poly_len": plen, "mode": mode});
        ev.case(&desc, plen >= 2);
        let deg = rf::trim(a.clone()).len().saturating_sub(1);
        match guard(|| dv::commit(&ck, &a)) {
            Ok(Ok(c)) => {
                if deg > max_deg {
                    ev.violation("C20:commit:beyond-key-degree-accepted", json!({"case": desc}));
                    return;
                }
                if deg == max_deg && plen > 0 {
                    ev.bucket("commit.max_degree_ok");
                }
                if c != rk::naive_commit(&powers, &a) {
                    ev.violation("C20:commit:value-mismatch", json!({"case": desc, "coeffs": crate::util::hxs(&a)}));
                }
                if rf::trim(a.clone()).is_empty() && !bool::from(c.is_identity()) {
                    ev.violation("C20:commit:zero-poly-not-identity", json!({"case": desc}));
                }
                // additivity and homogeneity
                if let (Ok(Ok(cb)), Ok(Ok(cab))) = (
                    guard(|| dv::commit(&ck, &b)),
                    guard(|| dv::commit(&ck, &rf::add(&a, &b))),
                ) {
                    ev.bucket("commit.additivity");
                    let sum: G1Affine = (G1Projective::from(c) + G1Projective::from(cb)).into();
                    if sum != cab {
                        ev.violation("C20:commit:not-additive", json!({"case": desc}));
                    }
                }
                let k = pool_scalar(&mut rng);
                if let Ok(Ok(ck_a)) = guard(|| dv::commit(&ck, &rf::scale(&a, &k))) {
                    let want: G1Affine = (G1Projective::from(c) * k).into();
                    if ck_a != want {
                        ev.violation("C20:commit:not-homogeneous", json!({"case": desc, "k": hx(&k)}));
                    }
                }
            }
            Ok(Err(_)) => {
                if deg <= max_deg {
                    ev.violation("C20:commit:admissible-degree-rejected", json!({"case": desc}));
                } else {
                    ev.bucket("commit.boundary_err");
                }
            }
            Err(e) => ev.violation(&format!("C20:commit:panic:{}", panic_site(&e)), json!({"case": desc, "error": e})),
        }
    });
}

#[derive(Clone)]
struct Open {
    w: G1Affine,
    y: BlsScalar,
    c: G1Affine,
    z: BlsScalar,
}

fn opening_checks(ev: &Ev, tier: Tier, seed: u64) {
    let n = tier.pick(120u64, 1200u64);
    par_cases(n, threads(), |ci| {
        let mut rng = case_rng(seed, "C20.open", ci);
        let deg = [1usize, 2, 5, 16, 40][ci as usize % 5];
        let pp = crate::util::pp(64);
        let ck = dv::pp_commit_key(&pp);
        let (g, h, xh) = dv::opening_key_parts(dv::pp_opening_key(&pp));
        let m = 1 + (ci as usize / 5) % 5; // batch size 1..5
        let mut opens: Vec<Open> = Vec::new();
        for j in 0..m {
            // some entries are aggregated openings of k polynomials at one point
            // (mostly 1..6; sometimes many more than any caller in the crate
            // aggregates - the prover opens 12 and 4 - incl. 15..18, 31..34, 64)
            let k = if (ci as usize + j) % 3 == 0 {
                match rng.next_u32() % 4 {
                    0 => [12usize, 15, 16, 17, 18, 31, 32, 33, 34, 40, 64][rng.next_u32() as usize % 11],
                    _ => 1 + rng.next_u32() as usize % 6,
                }
            } else {
                1
            };
            ev.set_insert("aggregate_sizes", k);
            let z = if rng.next_u32() % 8 == 0 { pool_scalar(&mut rng) } else { rand_scalar(&mut rng) };
            let polys: Vec<Vec<BlsScalar>> = (0..k)
                .map(|_| {
                    let l = 1 + rng.next_u32() as usize % (deg + 1);
                    rand_coeffs(&mut rng, l, 0)
                })
                .collect();
            let mut polys = polys;
            if k >= 2 && rng.next_u32() % 3 == 0 {
                // a zero polynomial inside the aggregate (its commitment is the identity)
                let pos = rng.next_u32() as usize % k;
                polys[pos] = if rng.next_u32() % 2 == 0 { Vec::new() } else { vec![BlsScalar::zero(); 3] };
                ev.bucket("aggregate_with_zero_polynomial");
            }
            let ys: Vec<BlsScalar> = polys.iter().map(|p| rf::horner(p, &z)).collect();
            let cs: Vec<G1Affine> = polys.iter().map(|p| dv::commit(ck, p).unwrap()).collect();
            let v = rand_scalar(&mut rng);
            let wit = dv::compute_aggregate_witness(&polys, &z, &v);
            let w = dv::commit(ck, &wit).unwrap();
            if k == 1 {
                opens.push(Open { w, y: ys[0], c: cs[0], z });
            } else {
                let parts: Vec<(BlsScalar, G1Affine)> = ys.iter().copied().zip(cs.iter().copied()).collect();
                let (fw, fy, fc) = dv::flatten(w, &parts, &v);
                ev.bucket("flatten");
                // flatten = linear combination with powers of v
                let vp: Vec<BlsScalar> = (0..k).map(|i| rf::pow(&v, i as u64)).collect();
                let want_y: BlsScalar = ys.iter().zip(&vp).map(|(y, p)| y * p).sum();
                let want_c = rk::lincomb(&cs, &vp);
                if fw != w || fy != want_y || fc != want_c {
                    ev.violation("C20:flatten:not-the-linear-combination", json!({"k": k}));
                }
                opens.push(Open { w: fw, y: fy, c: fc, z });
            }
        }
        // plant an error
        let plant = (ci / 25) % 8;
        let pos = rng.next_u32() as usize % m;
        let mut label = "all-true".to_string();
        let mut points: Vec<BlsScalar> = opens.iter().map(|o| o.z).collect();
        match plant {
            0 | 1 => {}
            2 => {
                opens[pos].y += BlsScalar::one();
                label = format!("wrong-eval@{pos}/{m}");
            }
            3 => {
                opens[pos].w = (G1Projective::from(opens[pos].w) + G1Projective::from(g)).into();
                label = format!("wrong-witness@{pos}/{m}");
            }
            4 => {
                if m >= 2 {
                    let q = (pos + 1) % m;
                    let (a, b) = (opens[pos].y, opens[q].y);
                    if a != b {
                        opens[pos].y = b;
                        opens[q].y = a;
                        label = format!("swapped-evals@{pos},{q}/{m}");
                    }
                }
            }
            5 => {
                points[pos] += BlsScalar::one();
                opens[pos].z = points[pos];
                label = format!("wrong-point@{pos}/{m}");
            }
            6 => {
                opens[pos].c = (G1Projective::from(opens[pos].c) + G1Projective::from(g)).into();
                label = format!("wrong-commitment@{pos}/{m}");
            }
            _ => {
                if m >= 2 {
                    let q = (pos + 1) % m;
                    let (a, b) = (opens[pos].w, opens[q].w);
                    if a != b {
                        opens[pos].w = b;
                        opens[q].w = a;
                        label = format!("swapped-witnesses@{pos},{q}/{m}");
                    }
                }
            }
        }
        let expected = opens.iter().all(|o| rk::opening_holds(&g, &h, &xh, &o.c, &o.y, &o.z, &o.w));
        // completeness: an opening built from true evaluations, the real
        // aggregate witness and real commitments satisfies the pairing equation
        if label == "all-true" && !expected {
            ev.violation("C20:honest-opening-does-not-satisfy-the-pairing-equation", json!({"m": m, "deg": deg, "ci": ci}));
        }
        let tuple: Vec<dv::Opening> = opens.iter().map(|o| (o.w, o.y, o.c)).collect();
        let desc = json!({"part": "batch", "m": m, "deg": deg, "planted": label, "expected_accept": expected});
        ev.case(&desc, true);
        ev.set_insert("planted", &label);
        let got = guard(|| dv::batch_check(dv::pp_opening_key(&pp), &points, &tuple, &mut Transcript::new(b"c20")));
        match got {
            Ok(r) => {
                let acc = r.is_ok();
                ev.bucket(if acc { "batch.accepted" } else { "batch.rejected" });
                if acc != expected {
                    ev.violation(
                        &format!("C20:batch_check:decision-differs:{}", label.split('@').next().unwrap()),
                        json!({"case": desc, "real_accepts": acc}),
                    );
                }
            }
            Err(e) => ev.violation(&format!("C20:batch_check:panic:{}", panic_site(&e)), json!({"case": desc, "error": e})),
        }
        // shape errors: empty batch, mismatched lengths
        if ci % 10 == 0 {
            ev.case(&json!({"part": "batch-shape", "ci": ci}), true);
            let r1 = guard(|| dv::batch_check(dv::pp_opening_key(&pp), &[], &[], &mut Transcript::new(b"c20")));
            let r2 = guard(|| dv::batch_check(dv::pp_opening_key(&pp), &points[..m - 1], &tuple, &mut Transcript::new(b"c20")));
            let mut longer = points.clone();
            longer.push(BlsScalar::one());
            let r3 = guard(|| dv::batch_check(dv::pp_opening_key(&pp), &longer, &tuple, &mut Transcript::new(b"c20")));
            for (name, r) in [("empty", r1), ("fewer-points", r2), ("more-points", r3)] {
                ev.set_insert("planted", name);
                match r {
                    Ok(Err(_)) => ev.bucket("batch.rejected"),
                    Ok(Ok(())) => ev.violation(&format!("C20:batch_check:{name}-accepted"), json!({"m": m})),
                    Err(e) => ev.violation(&format!("C20:batch_check:{name}:panic:{}", panic_site(&e)), json!({"error": e})),
                }
            }
        }
    });
}
