//! C02 — soundness against explored adversaries.
//!
//! False statements (a circuit + public inputs with no satisfying witness)
//! are built by appending a contradiction to a random program; proofs for
//! them are produced by the real proving algorithm forced past its
//! unsatisfied-circuit check (S1), by satisfying every row while breaking a
//! copy constraint (S2), by splicing valid proofs (S4) and as degenerate
//! proofs (S5). The real verifier must reject every one of them.

use dusk_bls12_381::{BlsScalar, G1Affine};
use dusk_bytes::Serializable;
use dusk_jubjub::{JubJubScalar, GENERATOR_EXTENDED};
use dusk_plonk::prelude::PlonkVersion;
use rand_core::RngCore;
use serde_json::json;

use super::c03::{field_range, Judge, PROOF_FIELDS};
use super::common::{self, Fail};
use crate::gen::build::{self, Builder, GenCfg};
use crate::gen::program::{Op, Pi, Tamper};
use crate::mon::evidence::{Ev, Tier};
use crate::mon::rng::case_rng;
use crate::refimpl::sat::{self, Comp};
use crate::refimpl::verifier::Version;
use crate::util::{par_cases, pool_scalar, rand_scalar, threads};

const FALSIFIERS: [&str; 7] = ["arith-contradiction", "range-overflow", "logic-wrong-output", "fixed-base-wrong-point", "variable-base-wrong-sum", "public-input-mismatch", "copy-break"];

/// Append a contradiction of the given kind. Returns tamper list (for the
/// copy-break strategy) to apply on the proving instance.
fn falsify(b: &mut Builder, rng: &mut impl RngCore, kind: usize) -> Vec<Tamper> {
    let one = BlsScalar::one();
    match kind {
        0 => {
            let k = pool_scalar(rng);
            b.push(Op::Constant(k)).unwrap();
            let c = b.last();
            b.push(Op::AssertEqConst(c, k + one, Pi::None)).unwrap();
            vec![]
        }
        1 => {
            let w = 2 + rng.next_u32() as usize % 60;
            let v = crate::util::pow2(w as u32) + BlsScalar::from(rng.next_u64() % 1000);
            b.push(Op::Constant(v)).unwrap();
            let c = b.last();
            b.push(Op::RangeBits(w, c)).unwrap();
            vec![]
        }
        2 => {
            let (x, y) = (rand_scalar(rng), rand_scalar(rng));
            b.push(Op::Constant(x)).unwrap();
            let xr = b.last();
            b.push(Op::Constant(y)).unwrap();
            let yr = b.last();
            let p = 1 + rng.next_u32() as usize % 8;
            if rng.next_u32() % 2 == 0 {
                b.push(Op::LogicAnd(p, xr, yr)).unwrap();
            } else {
                b.push(Op::LogicXor(p, xr, yr)).unwrap();
            }
            let d = b.last();
            let wrong = b.val(d) + one;
            b.push(Op::AssertEqConst(d, wrong, Pi::None)).unwrap();
            vec![]
        }
        3 => {
            let s = JubJubScalar::from(rng.next_u64());
            b.push(Op::Constant(BlsScalar::from(s))).unwrap();
            let sr = b.last();
            b.push(Op::MulGenerator(sr, GENERATOR_EXTENDED)).unwrap();
            let p = b.last_p();
            b.push(Op::PointCoords(p)).unwrap();
            let y = b.last();
            let wrong = b.val(y) + one;
            b.push(Op::AssertEqConst(y, wrong, Pi::None)).unwrap();
            vec![]
        }
        4 => {
            b.push(Op::ConstantPoint(build::subgroup_point(rng))).unwrap();
            let p = b.last_p();
            b.push(Op::ConstantPoint(build::subgroup_point(rng))).unwrap();
            let q = b.last_p();
            b.push(Op::AddPoint(p, q)).unwrap();
            let r = b.last_p();
            b.push(Op::PointCoords(r)).unwrap();
            let x = b.last() - 1;
            let wrong = b.val(x) + one;
            b.push(Op::AssertEqConst(x, wrong, Pi::None)).unwrap();
            vec![]
        }
        5 => {
            // constant k, publicly claimed to be k' != k
            let k = pool_scalar(rng);
            b.push(Op::Constant(k)).unwrap();
            let c = b.last();
            let i = b.scalar_input(k + one + BlsScalar::from(rng.next_u64() % 5));
            b.push(Op::AssertEqConst(c, BlsScalar::zero(), Pi::Input(i))).unwrap();
            vec![]
        }
        _ => {
            // all rows satisfiable, but only by breaking the copy constraint
            let k = pool_scalar(rng);
            b.push(Op::Constant(k)).unwrap();
            let c = b.last();
            let other = b.witness(k + one); // unused witness holding the value the second row wants
            let other_w = b.regs.s[other].index();
            b.push(Op::AssertEqConst(c, k + one, Pi::None)).unwrap();
            let row = b.rows() - 1;
            vec![Tamper::SetWire { row, wire: 0, witness: other_w }]
        }
    }
}

pub fn run(tier: Tier, seed: u64) -> i32 {
    let ev = Ev::new("C02", tier, seed);
    ev.set_rule(
        "cases = forged (proof, public inputs) for false statements: S1 real prover forced past its \
         unsatisfied check on an identity violation, S2 rows satisfied with a broken copy constraint \
         (forced), S4 field-wise splices of two valid proofs, S5 degenerate proofs; the real verifier \
         must return Err and R-VER must agree; non-trivial = the forged proof decodes and reaches the \
         pairing check; distinct = fingerprint of (strategy, falsifier, circuit, decisions)",
    );
    ev.assume("soundness against all provers is cryptographic; only the listed strategies are explored");
    ev.assume("a circuit containing 'c is the constant k' and 'c = k+1' (or its per-family analogue) has no satisfying witness");
    let judge = Judge { ev: &ev, prefix: "C02" };

    // ---- S1 / S2: forced proofs for false statements ------------------------
    let n = tier.pick(84u64, 840u64);
    par_cases(n, threads(), |ci| {
        let mut rng = case_rng(seed, "C02.S1", ci);
        let kind = (ci % 7) as usize;
        let rows = [6usize, 10, 20, 40, 90, 200][(ci / 7) as usize % 6];
        let mut cfg = GenCfg::all();
        cfg.heavy = false;
        let mut b = build::random_program(&mut rng, &cfg, rows);
        let tamper = falsify(&mut b, &mut rng, kind);
        let total_rows = b.rows();
        let (prog, inputs) = b.finish();
        let pp = crate::util::pp(common::min_degree(total_rows));
        let label = format!("c02-{ci}");
        let compiled = match common::compile(&pp, label.as_bytes(), &prog) {
            Ok(c) => c,
            Err(f) => {
                ev.violation("C02:compile-failed", json!({"ops": prog.tags(), "error": f.text()}));
                return;
            }
        };
        // unforced: the prover must refuse
        let mut prng = case_rng(seed, "C02.prove", ci);
        let unforced = common::prove(&compiled.prover, &prog, &inputs, &tamper, &mut prng, PlonkVersion::V3);
        let inst = unforced.instance.as_ref().map(|(s, _)| s.clone());
        let Some(inst) = inst else {
            ev.inconclusive("falsified instance failed to build");
            return;
        };
        let rep = sat::check(&compiled.layout, &inst);
        if rep.satisfied() {
            ev.inconclusive(&format!("falsifier {} produced a satisfied instance", FALSIFIERS[kind]));
            return;
        }
        if kind == 6 && rep.components() != vec![Comp::Copy] {
            ev.inconclusive("copy-break strategy violated a row identity");
            return;
        }
        if unforced.result.is_ok() {
            ev.violation(&format!("C02:unsatisfied-instance-proved-unforced:{}", FALSIFIERS[kind]), json!({"ops": prog.tags()}));
        }
        // forced
        dusk_plonk::verif::set_force_prove(true);
        let forced = common::prove(&compiled.prover, &prog, &inputs, &tamper, &mut prng, PlonkVersion::V3);
        let forced_v2 = common::prove(&compiled.prover, &prog, &inputs, &tamper, &mut prng, PlonkVersion::V2);
        dusk_plonk::verif::set_force_prove(false);
        // ---- S3: naive prover as forger: one evaluation solved so that the scalar
        // part of the verification equation balances (n <= 64) ---------------------
        let big_s3 = kind == 3 && (ci / 7) % 6 == 0 && total_rows.next_power_of_two() <= 512;
        if total_rows.next_power_of_two() <= 64 || big_s3 {
            use crate::refimpl::{kzg as rk, prover as rp, verifier as rv};
            let vbytes = compiled.verifier.to_bytes();
            if let (Some(key), Some(srs), Ok(vk)) = (rp::KeyPolys::from_prover_bytes(&compiled.prover.to_bytes()), rk::parse_srs(&pp.to_var_bytes()), rv::parse_verifier(&vbytes)) {
                let wires = sat::wires_of(&inst);
                let pi: Vec<BlsScalar> = inst.public_inputs.iter().map(|(_, v)| *v).collect();
                let bl = rp::Blinders {
                    wires: core::array::from_fn(|_| [rand_scalar(&mut rng), rand_scalar(&mut rng)]),
                    perm: [rand_scalar(&mut rng), rand_scalar(&mut rng), rand_scalar(&mut rng)],
                    quotient: [rand_scalar(&mut rng), rand_scalar(&mut rng), rand_scalar(&mut rng)],
                };
                // identity wire commitment (zero polynomial) with that wire's evaluation solved:
                // the opening at z must still bind the evaluation to the identity commitment
                if !big_s3 {
                    for wire in 0..4usize {
                        for ver in [Version::V3, Version::V2, Version::V1] {
                            let Some(built) = rp::prove_full(&key, &srs.powers, &vk, &wires, &pi, &bl, ver, true, Some(wire), Some(wire)) else { continue };
                            if built.solved != Some(true) {
                                ev.bucket("S3.not-affine-or-unsolvable");
                                continue;
                            }
                            let (acc, _) = judge.triple("S3-identity-commitment-solved-evaluation", Some(&compiled.verifier), &vbytes, &built.proof, &pi, ver,
                                json!({"falsifier": FALSIFIERS[kind], "wire": (["a", "b", "c", "d"][wire]), "rows": total_rows, "ci": ci}));
                            ev.bucket("forged.S3-identity-commitment");
                            if acc {
                                ev.violation(&format!("C02:false-statement-accepted:S3-identity-commitment:{}:{ver:?}", ["a", "b", "c", "d"][wire]),
                                    json!({"ops": prog.tags(), "proof": hex::encode(&built.proof), "pi": crate::util::hxs(&pi)}));
                            }
                        }
                    }
                }
                for k in 0..15usize {
                    if big_s3 && !(7..=10).contains(&k) {
                        continue;
                    }
                    for ver in [Version::V3, Version::V1] {
                        let Some(built) = rp::prove_full(&key, &srs.powers, &vk, &wires, &pi, &bl, ver, true, Some(k), None) else { continue };
                        if built.solved != Some(true) {
                            ev.bucket("S3.not-affine-or-unsolvable");
                            continue;
                        }
                        let (acc, _) = judge.triple("S3-solved-evaluation", Some(&compiled.verifier), &vbytes, &built.proof, &pi, ver,
                            json!({"falsifier": FALSIFIERS[kind], "evaluation": super::c03::PROOF_FIELDS[11 + k], "rows": total_rows, "ci": ci}));
                        ev.bucket("forged.S3-solved-evaluation");
                        ev.set_insert("S3_evaluations_solved", super::c03::PROOF_FIELDS[11 + k]);
                        if acc {
                            ev.violation(&format!("C02:false-statement-accepted:S3-solved-evaluation:{}:{ver:?}", super::c03::PROOF_FIELDS[11 + k]),
                                json!({"ops": prog.tags(), "proof": hex::encode(&built.proof), "pi": crate::util::hxs(&pi)}));
                        }
                    }
                }
            }
        }
        let strategy = if kind == 6 { "S2-copy-break" } else { "S1-forced" };
        for (ver, fr) in [(Version::V3, forced), (Version::V2, forced_v2)] {
            match fr.result {
                Ok((proof, pi)) => {
                    let pb = proof.to_bytes();
                    let (real_acc, _) = judge.triple(strategy, Some(&compiled.verifier), &compiled.verifier.to_bytes(), &pb, &pi, ver,
                        json!({"falsifier": FALSIFIERS[kind], "rows": total_rows, "ci": ci,
                            "violated": rep.components().iter().map(|c| c.name()).collect::<Vec<_>>()}));
                    ev.bucket(&format!("forged.{strategy}"));
                    ev.set_insert("falsifiers_reaching_verifier", FALSIFIERS[kind]);
                    if real_acc {
                        ev.violation(
                            &format!("C02:false-statement-accepted:{strategy}:{}", FALSIFIERS[kind]),
                            json!({"ops": prog.tags(), "version": format!("{ver:?}"), "proof": hex::encode(pb), "pi": crate::util::hxs(&pi)}),
                        );
                    }
                }
                Err(Fail::Panic(p)) => ev.violation(&format!("C02:forced-prover-panicked:{}", crate::mon::panic::panic_site(&p)), json!({"ops": prog.tags(), "panic": p})),
                Err(Fail::Err(e)) => {
                    // the forced prover can still fail for other reasons; that is
                    // not an adversary success
                    ev.bucket(&format!("forced_prover_err.{e:?}"));
                }
            }
        }
    });

    // ---- S4: splices of two valid proofs of the same circuit ----------------
    let n_splice = tier.pick(6u64, 40u64);
    par_cases(n_splice, threads(), |ci| {
        let mut rng = case_rng(seed, "C02.S4", ci);
        let rows = [8usize, 24, 60, 130, 300, 520][ci as usize % 6];
        let mut cfg = GenCfg::all();
        cfg.heavy = rows >= 500;
        let spec = match common::specimen(&mut rng, &cfg, rows, format!("c02-splice-{ci}").as_bytes()) {
            Ok(s) => s,
            Err(e) => {
                ev.violation("C02:specimen-failed", json!({"error": e}));
                return;
            }
        };
        // a second valid proof of the same circuit: same witness, fresh randomness
        let p2 = common::prove(&spec.compiled.prover, &spec.prog, &spec.inputs, &[], &mut rng, PlonkVersion::V3);
        let Ok((proof_b, _)) = p2.result else {
            ev.violation("C02:second-honest-proof-failed", json!({}));
            return;
        };
        let a = spec.proof_v3.clone();
        let bb = proof_b.to_bytes().to_vec();
        let mut masks: Vec<u32> = (0..26).map(|f| 1u32 << f).collect();
        for _ in 0..tier.pick(60, 200) {
            masks.push(rng.next_u32() & ((1 << 26) - 1));
        }
        for m in masks {
            if m == 0 || m == (1 << 26) - 1 {
                continue;
            }
            let mut p = a.clone();
            for f in 0..26 {
                if m & (1 << f) != 0 {
                    p[field_range(f)].copy_from_slice(&bb[field_range(f)]);
                }
            }
            if p == a || p == bb {
                continue;
            }
            let (acc, _) = judge.triple("S4-splice", Some(&spec.compiled.verifier), &spec.vbytes, &p, &spec.pi, Version::V3,
                json!({"ci": ci, "mask": format!("{m:026b}"), "single_field": if m.count_ones() == 1 { PROOF_FIELDS[m.trailing_zeros() as usize] } else { "" }}));
            ev.bucket("forged.S4-splice");
            if acc {
                ev.violation("C02:splice-accepted", json!({"mask": format!("{m:026b}"), "proof": hex::encode(&p)}));
            }
        }
        // ---- S5: degenerate proofs against this verifier ----------------------
        let id = G1Affine::identity().to_bytes();
        let mut degenerate: Vec<(String, Vec<u8>)> = Vec::new();
        let mut all_id = vec![0u8; 1008];
        for f in 0..11 {
            all_id[field_range(f)].copy_from_slice(&id);
        }
        degenerate.push(("all-identity-zero-evals".into(), all_id.clone()));
        let mut p = all_id.clone();
        for f in 11..26 {
            p[field_range(f)].copy_from_slice(&BlsScalar::one().to_bytes());
        }
        degenerate.push(("all-identity-one-evals".into(), p));
        degenerate.push(("all-zero-bytes".into(), vec![0u8; 1008]));
        // honest evaluations, identity commitments; identity commitments in one group only
        let mut p = a.clone();
        for f in 0..11 {
            p[field_range(f)].copy_from_slice(&id);
        }
        degenerate.push(("identity-commitments-honest-evals".into(), p));
        for group in [0..4usize, 4..5, 5..9, 9..11] {
            let mut p = a.clone();
            for f in group.clone() {
                p[field_range(f)].copy_from_slice(&id);
            }
            degenerate.push((format!("identity-commitments-{group:?}"), p));
        }
        let mut p = a.clone();
        for f in 11..26 {
            p[field_range(f)].copy_from_slice(&BlsScalar::zero().to_bytes());
        }
        degenerate.push(("honest-commitments-zero-evals".into(), p));
        // all-identity with one evaluation set so that single scalar terms vanish
        for f in 11..26 {
            let mut p = all_id.clone();
            p[field_range(f)].copy_from_slice(&rand_scalar(&mut rng).to_bytes());
            degenerate.push((format!("all-identity-random-{}", PROOF_FIELDS[f]), p));
        }
        for (name, p) in degenerate {
            for (pi_name, pi) in [("honest-pi", spec.pi.clone()), ("zero-pi", vec![BlsScalar::zero(); spec.pi.len()])] {
                let (acc, _) = judge.triple("S5-degenerate", Some(&spec.compiled.verifier), &spec.vbytes, &p, &pi, Version::V3,
                    json!({"ci": ci, "proof": name, "pi": pi_name}));
                ev.bucket("forged.S5-degenerate");
                if acc {
                    ev.violation(&format!("C02:degenerate-proof-accepted:{}", name.split('-').take(2).collect::<Vec<_>>().join("-")), json!({"proof": name, "pi": pi_name}));
                }
            }
        }
    });

    ev.floor("forged proofs that decoded (reached the equation)", ev.bucket_get("decoded"), tier.pick(200, 5000));
    ev.floor("S1 forced proofs", ev.bucket_get("forged.S1-forced"), tier.pick(100, 1000));
    ev.floor("S2 copy-break proofs", ev.bucket_get("forged.S2-copy-break"), tier.pick(15, 150));
    ev.floor("falsifier kinds that reached the verifier", ev.set_len("falsifiers_reaching_verifier") as u64, 7);
    ev.floor("S4 splices", ev.bucket_get("forged.S4-splice"), tier.pick(300, 2000));
    ev.floor("S3 solved-evaluation forgeries", ev.bucket_get("forged.S3-solved-evaluation"), tier.pick(100, 1000));
    ev.floor("S3 evaluations that could be solved", ev.set_len("S3_evaluations_solved") as u64, 8);
    ev.floor("S3 identity-commitment forgeries", ev.bucket_get("forged.S3-identity-commitment"), tier.pick(30, 300));
    ev.floor("S5 degenerate", ev.bucket_get("forged.S5-degenerate"), tier.pick(100, 500));
    if ev.bucket_get("real.accept") > 0 && ev.violations() == 0 && ev.known_hits() == 0 {
        ev.inconclusive("a forged proof was accepted but not reported");
    }
    ev.finish()
}
