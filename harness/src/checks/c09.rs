//! C09 — range check admits exactly the interval [0, 2^BITS).

use std::sync::Arc;

use dusk_bls12_381::BlsScalar;
use rand_core::RngCore;
use serde_json::json;

use super::common;
use super::gadget::{substitutions, Case, Forge, Honest, Lab};
use crate::gen::program::{Inputs, Op, Program};
use crate::mon::evidence::{Ev, Tier};
use crate::mon::rng::case_rng;
use crate::refimpl::bigint::U320;
use crate::refimpl::sat;
use crate::util::{minus_one, par_cases, pow2, rand_scalar, threads};

fn prog(op: Op) -> Arc<Program> {
    Arc::new(Program { ops: vec![Op::Witness(0), op], n_scalar_inputs: 1, n_point_inputs: 0, n_digit_inputs: 0 })
}

/// accumulators of the base-4 chain of integer x over `quads` quads
/// (most significant first): acc_j = floor(x / 4^(quads-1-j)) mod 4^(j+1)
pub fn chain(x: &U320, quads: usize) -> Vec<BlsScalar> {
    let mut out = Vec::with_capacity(quads);
    let mut acc = BlsScalar::zero();
    for j in 0..quads {
        let bit = 2 * (quads - 1 - j);
        let q = x.bit(bit) + 2 * x.bit(bit + 1);
        acc = acc * BlsScalar::from(4u64) + BlsScalar::from(q);
        out.push(acc);
    }
    out
}

pub fn values_for(w: usize, rng: &mut impl RngCore) -> Vec<(&'static str, BlsScalar)> {
    let one = BlsScalar::one();
    let mut v: Vec<(&'static str, BlsScalar)> = vec![("0", BlsScalar::zero()), ("r-1", minus_one())];
    if w <= 254 {
        v.push(("2^w-1", pow2(w as u32) - one));
        v.push(("2^w", pow2(w as u32)));
        v.push(("2^w+1", pow2(w as u32) + one));
        if w >= 1 {
            v.push(("2^(w-1)", pow2(w as u32 - 1)));
        }
    } else {
        v.push(("2^254", pow2(254)));
    }
    // around the 8-bit row boundaries
    let j = (w / 8) * 8;
    if j >= 8 && j <= 254 {
        v.push(("2^(8j)-1", pow2(j as u32) - one));
        v.push(("2^(8j)+1", pow2(j as u32) + one));
    }
    // field fractions: k / 2 = (r + k) / 2 and k / 2^j for small odd k - small
    // after doubling, about 2^254 as integers
    let k = BlsScalar::from(1 + 2 * (rng.next_u64() % 8));
    v.push(("k/2", k * BlsScalar::from(2u64).invert().unwrap()));
    v.push(("k/2^j", k * pow2(1 + rng.next_u32() % 8).invert().unwrap()));
    v.push(("k/3", k * BlsScalar::from(3u64).invert().unwrap()));
    // random below and above
    let r = rand_scalar(rng);
    v.push(("random-above", r));
    if w >= 1 {
        v.push(("random-below", U320::from_scalar(&r).low_bits(w.min(254)).to_scalar()));
    }
    v
}

pub fn run(tier: Tier, seed: u64) -> i32 {
    let ev = Ev::new("C09", tier, seed);
    ev.set_rule(
        "cases = (width 0..=256, entry point, value): honest assignment (value < 2^width <=> R-SAT satisfied) and \
         adversarial accumulator assignments installed at allocation time: base-4 chains of other integers (value \
         mod 2^w, value+r, value+2r, value-2^w, random), single accumulators moved by +-1/+-4^j with the rest \
         re-propagated, forged (lower, top bit) splits for odd widths; satisfied => value < 2^width; both entry \
         points must emit identical gates; distinct = fingerprint of (width, value class, adversary)",
    );
    ev.assume("widths 255 and 256 are documented as constraining nothing (every canonical value is below 2^255)");
    let lab = Lab { ev: &ev, id: "C09", seed };
    par_cases(257, threads(), |wi| {
        let w = wi as usize;
        let mut rng = case_rng(seed, "C09", wi);
        ev.set_insert("widths", w);
        // entry-point equivalence
        let mut layouts = Vec::new();
        let mut entries: Vec<(&str, Op)> = vec![("component_range_bits", Op::RangeBits(w, 2)), ("verif_range_check", Op::RangeSeam(w, 2))];
        if w % 2 == 0 && w / 2 <= 128 {
            entries.push(("component_range", Op::RangePairs(w / 2, 2)));
        }
        if w == 256 {
            for p in [129usize, 130, 140, 200, 1000] {
                entries.push(("component_range(clamped)", Op::RangePairs(p, 2)));
            }
        }
        for (name, op) in &entries {
            let p = prog(op.clone());
            let inp = Inputs { scalars: vec![BlsScalar::from(3u64)], points: vec![], digits: vec![] };
            match common::build_instance(&p, &inp, &[]) {
                Ok((s, _)) => layouts.push((name.to_string(), sat::canonical(&s))),
                Err(f) => ev.violation(&format!("C09:{name}:build-failed"), json!({"width": w, "error": f.text()})),
            }
        }
        for (n, l) in layouts.iter().skip(1) {
            ev.bucket("entry_points_compared");
            if *l != layouts[0].1 {
                ev.violation(&format!("C09:entry-points-emit-different-gates:{n}"), json!({"width": w, "difference": sat::canon_diff(&layouts[0].1, l)}));
            }
        }
        // values x entry points
        for (vi, (vname, v)) in values_for(w, &mut rng).into_iter().enumerate() {
            let (ename, op) = entries[vi % entries.len().min(3)].clone();
            let uv = U320::from_scalar(&v);
            let relation = w >= 255 || uv.lt(&U320::pow2(w));
            let case = Case {
                component: format!("{ename}<{w}>"),
                prog: prog(op),
                inputs: Inputs { scalars: vec![v], points: vec![], digits: vec![] },
                op: 1,
                returned: vec![],
                relation,
                expected: vec![],
                note: format!("value={vname}"),
            };
            ev.bucket(if relation { "honest.in-range" } else { "honest.out-of-range" });
            let case = if (vi + w) % 3 == 1 { super::gadget::in_context(case, &mut rng, false, &ev) } else { case };
            let Some(h) = lab.honest(&case) else { continue };
            for (name, forge) in range_adversaries(&h, w, &v, &mut rng) {
                lab.adversary(&case, &h, &name, &forge);
            }
            for (name, forge) in substitutions(&h, &mut rng, 2, tier.pick(3, 10)) {
                lab.adversary(&case, &h, &name, &forge);
            }
            // end to end: one in-range and one out-of-range value per width
            // class mod 8 (quick) / per width (thorough)
            let e2e = match tier {
                Tier::Quick => w % 8 == (seed as usize + w / 8) % 8 || w <= 2 || w >= 253,
                Tier::Thorough => true,
            };
            if e2e && (vname == "2^w-1" || vname == "2^w" || vname == "r-1" && w >= 255) {
                lab.confirm(&case, &h, None);
            }
        }
    });
    ev.floor("widths", ev.set_len("widths") as u64, 257);
    ev.floor("entry point comparisons", ev.bucket_get("entry_points_compared"), 257 + 129);
    ev.floor("adversarial chains", ev.bucket_get("adversary.chain"), 3 * 250);
    ev.floor("in-range honest cases", ev.bucket_get("honest.in-range"), 700);
    ev.floor("out-of-range honest cases", ev.bucket_get("honest.out-of-range"), 700);
    ev.floor("end-to-end confirmations", ev.bucket_get("end_to_end"), tier.pick(60, 500));
    ev.floor("near-miss assignments (one sub-identity on one row) refused by the real prover", ev.bucket_get("near_miss.end_to_end"), 100);
    ev.floor("sub-identities covered by near misses", ev.set_len("near_miss_identities") as u64, 4);
    ev.floor("cases run in a context of earlier calls on the operands", ev.bucket_get("context.cases"), 200);
    ev.finish()
}

/// accumulator-level adversaries for one range check of `w` bits on value v
pub fn range_adversaries(h: &Honest, w: usize, v: &BlsScalar, rng: &mut impl RngCore) -> Vec<(String, Forge)> {
    let mut out = Vec::new();
    if w == 0 {
        return out;
    }
    let uv = U320::from_scalar(v);
    let r = U320::r();
    let own: Vec<usize> = h.own.clone().collect();
    let odd = w % 2 == 1;
    let even_w = if odd { w - 1 } else { w };
    let quads = even_w / 2;
    // witness layout: even: [acc_0..acc_{q-1}] ; odd: [lower, acc_0..acc_{q-1}, top_bit, recomposed]
    let acc_at = |j: usize| if odd { own[1 + j] } else { own[j] };
    if own.len() < quads + if odd { 3 } else { 0 } {
        return out;
    }
    let mut ints: Vec<(&str, U320)> = vec![("v-mod-2^w", uv.low_bits(w)), ("v+r", uv.add(&r)), ("v+2r", uv.add(&r).add(&r))];
    if let Some(d) = uv.checked_sub(&U320::pow2(w.min(300))) {
        ints.push(("v-2^w", d));
    }
    ints.push(("random", U320::from_scalar(&rand_scalar(rng)).low_bits(w)));
    ints.push(("v-shifted-by-2", uv.shr(2)));
    for (name, x) in ints {
        let mut f = Forge::new();
        if odd {
            // lower / top from the integer x: top = bit w-1 .. (may exceed 1), lower = x mod 2^(w-1)
            let lower = x.low_bits(w - 1);
            let top = x.shr(w - 1);
            f.insert(own[0], lower.to_scalar());
            f.insert(own[1 + quads], top.to_scalar());
            for (j, a) in chain(&lower, quads).into_iter().enumerate() {
                f.insert(acc_at(j), a);
            }
        } else {
            for (j, a) in chain(&x, quads).into_iter().enumerate() {
                f.insert(acc_at(j), a);
            }
        }
        out.push((format!("chain:{name}"), f));
    }
    // one accumulator moved, downstream re-propagated consistently (same digits)
    if quads >= 1 {
        for _ in 0..3 {
            let j = rng.next_u32() as usize % quads;
            let delta = [BlsScalar::one(), -BlsScalar::one(), BlsScalar::from(4u64), BlsScalar::from(3u64)][rng.next_u32() as usize % 4];
            let mut f = Forge::new();
            // shift acc_j by delta and every later accumulator by delta * 4^(k-j)
            let mut d = delta;
            for k in j..quads {
                f.insert(acc_at(k), h.snap.witnesses[acc_at(k)] + d);
                d *= BlsScalar::from(4u64);
            }
            out.push((format!("chain-shifted-from:{j}"), f));
        }
    }
    // the strongest single-link adversary: shift the chain from position j by
    // the amount that makes the *last* accumulator equal the checked value, so
    // that every row holds except the one link into position j
    if quads >= 1 {
        let target = if odd { h.snap.witnesses[own[0]] } else { *v };
        let last = h.snap.witnesses[acc_at(quads - 1)];
        let mut js = vec![0usize];
        if quads >= 2 {
            js.push(1);
            js.push(rng.next_u32() as usize % quads);
        }
        js.sort();
        js.dedup();
        for j in js {
            // delta * 4^(quads-1-j) = target - last
            let mut p = BlsScalar::one();
            for _ in 0..(quads - 1 - j) {
                p *= BlsScalar::from(4u64);
            }
            let delta = (target - last) * p.invert().unwrap();
            if delta == BlsScalar::zero() {
                continue;
            }
            let mut f = Forge::new();
            let mut d = delta;
            for k in j..quads {
                f.insert(acc_at(k), h.snap.witnesses[acc_at(k)] + d);
                d *= BlsScalar::from(4u64);
            }
            out.push((format!("chain-solved-from:{j}"), f));
        }
    }
    if odd {
        // top bit 2 with a compensating lower part; top bit flipped with lower adjusted
        let half = pow2(w as u32 - 1);
        for (name, top) in [("top=2", BlsScalar::from(2u64)), ("top=flipped", BlsScalar::one() - h.snap.witnesses[own[1 + quads]]), ("top=-1", -BlsScalar::one())] {
            let mut f = Forge::new();
            let lower = *v - top * half;
            f.insert(own[0], lower);
            f.insert(own[1 + quads], top);
            out.push((format!("split:{name}"), f));
        }
    }
    out
}
