//! C10 — bitwise AND / XOR components return exactly the truncated result.

use std::sync::Arc;

use dusk_bls12_381::BlsScalar;
use rand_core::RngCore;

use super::c09::chain;
use super::gadget::{substitutions, Case, Forge, Honest, Lab};
use crate::gen::program::{Inputs, Op, Program};
use crate::mon::evidence::{Ev, Tier};
use crate::mon::rng::case_rng;
use crate::refimpl::bigint::{bitop, U320};
use crate::util::{minus_one, par_cases, pow2, rand_scalar, threads};

fn prog(op: Op) -> Arc<Program> {
    Arc::new(Program { ops: vec![Op::Witness(0), Op::Witness(1), op], n_scalar_inputs: 2, n_point_inputs: 0, n_digit_inputs: 0 })
}

fn quads_of(x: &U320, p: usize) -> Vec<u64> {
    (0..p).map(|j| x.bit(2 * (p - 1 - j)) + 2 * x.bit(2 * (p - 1 - j) + 1)).collect()
}

/// Forge the 4p per-quad witnesses so that the logic rows see inputs
/// (a_low, b_low) and claim output `out` (all integers below 4^p).
fn logic_chains(h: &Honest, p: usize, a_low: &U320, b_low: &U320, out: &U320, f: &mut Forge) {
    let own = h.own.start;
    let (ca, cb, co) = (chain(a_low, p), chain(b_low, p), chain(out, p));
    let (qa, qb) = (quads_of(a_low, p), quads_of(b_low, p));
    for j in 0..p {
        f.insert(own + 4 * j, ca[j]);
        f.insert(own + 4 * j + 1, cb[j]);
        f.insert(own + 4 * j + 2, BlsScalar::from(qa[j] * qb[j]));
        f.insert(own + 4 * j + 3, co[j]);
    }
}

pub fn run(tier: Tier, seed: u64) -> i32 {
    let ev = Ev::new("C10", tier, seed);
    ev.set_rule(
        "cases = (operation, pair count 0..=127, input pair): honest assignment (always satisfiable, returned = \
         (A op B) mod 4^pairs on canonical integers) and adversarial assignments installed at allocation time: \
         another output chain, the other operation's output, input accumulators decoupled from the inputs (alias \
         split of A + r with the high part forged, another integer's chain), forged product wires and single \
         substitutions of every helper of the canonical-truncation guard; satisfied => returned value unchanged; \
         distinct = fingerprint of (op, pairs, value class, adversary)",
    );
    let lab = Lab { ev: &ev, id: "C10", seed };
    let per = tier.pick(3u64, 12u64);
    par_cases(2 * 128 * per, threads(), |ci| {
        let p = (ci % 128) as usize;
        let xor = (ci / 128) % 2 == 1;
        let k = ci / 256;
        let mut rng = case_rng(seed, "C10", ci);
        let nb = 2 * p;
        let (vname, a, b) = match (k + ci) % 7 {
            0 => ("zero-allones", BlsScalar::zero(), pow2(nb.min(254) as u32) - BlsScalar::one()),
            1 => ("r-1", minus_one(), rand_scalar(&mut rng)),
            2 => {
                let x = rand_scalar(&mut rng);
                ("equal", x, x)
            }
            3 => {
                let x = rand_scalar(&mut rng);
                // complementary on the low nb bits
                let low = U320::from_scalar(&x).low_bits(nb);
                let comp = U320::pow2(nb).checked_sub(&U320::from_u64(1)).unwrap().checked_sub(&low).unwrap();
                ("complementary", x, comp.to_scalar())
            }
            4 => {
                // differ only above the width
                let x = U320::from_scalar(&rand_scalar(&mut rng)).low_bits(nb);
                ("differ-above-width", x.to_scalar(), x.add(&U320::pow2(nb.max(1).min(253))).to_scalar())
            }
            5 => {
                // small values for which A + r still fits 255 bits: the alias split exists
                let x = U320::from_scalar(&rand_scalar(&mut rng)).low_bits(250);
                ("alias-reachable", x.to_scalar(), rand_scalar(&mut rng))
            }
            _ => ("random", rand_scalar(&mut rng), rand_scalar(&mut rng)),
        };
        // wiring: two distinct witnesses, the same witness on both sides, or a
        // circuit constant register (0 = ZERO, 1 = ONE) as one operand
        let (ra, rb, a, b, wname) = match (2 * k + p as u64) % 6 {
            0 => (2usize, 2usize, a, a, "same-witness"),
            1 => (1, 3, BlsScalar::one(), b, "constant-one-left"),
            2 => (2, 0, a, BlsScalar::zero(), "constant-zero-right"),
            _ => (2, 3, a, b, "distinct-witnesses"),
        };
        ev.set_insert("wirings", wname);
        ev.bucket(&format!("wiring.{wname}"));
        let expected = bitop(&a, &b, nb, xor);
        let name = if xor { "append_logic_xor" } else { "append_logic_and" };
        let op = if xor { Op::LogicXor(p, ra, rb) } else { Op::LogicAnd(p, ra, rb) };
        let case = Case {
            component: format!("{name}<{p}>"),
            prog: prog(op),
            inputs: Inputs { scalars: vec![a, b], points: vec![], digits: vec![] },
            op: 2,
            returned: vec![4],
            relation: true,
            expected: vec![expected],
            note: format!("values={vname} wiring={wname}"),
        };
        ev.set_insert("pair_counts", format!("{}:{p}", if xor { "xor" } else { "and" }));
        let case = if (k + ci / 128 + p as u64) % 3 == 1 { super::gadget::in_context(case, &mut rng, false, &ev) } else { case };
        let Some(h) = lab.honest(&case) else { return };
        if p == 0 {
            return;
        }
        let (ua, ub) = (U320::from_scalar(&a), U320::from_scalar(&b));
        let (la, lb) = (ua.low_bits(nb), ub.low_bits(nb));
        let honest_out = U320::from_scalar(&expected);
        // (a) another output / the other operation's output
        let other_op = U320::from_scalar(&bitop(&a, &b, nb, !xor));
        let mut outs = vec![("other-operation", other_op), ("out+1", honest_out.add(&U320::from_u64(1)).low_bits(nb)), ("random-out", U320::from_scalar(&rand_scalar(&mut rng)).low_bits(nb))];
        outs.retain(|(_, o)| *o != honest_out);
        for (n, o) in outs {
            let mut f = Forge::new();
            logic_chains(&h, p, &la, &lb, &o, &mut f);
            lab.adversary(&case, &h, &format!("claim-output:{n}"), &f);
        }
        // (b) decouple the left input: rows consistent with another integer A'
        if h.own.len() < 4 * p + 2 {
            // not the layout the adversaries below are written for; the honest
            // run above has already judged the component
            ev.bucket("unexpected-layout.adversaries-skipped");
            return;
        }
        let helpers = (h.own.len() - 4 * p) / 2;
        let high_a = h.own.start + 4 * p;
        let high_b = high_a + helpers;
        let r = U320::r();
        let mut alts: Vec<(&str, U320, Option<U320>)> = Vec::new();
        let alias = ua.add(&r);
        if alias.lt(&U320::pow2(255)) {
            ev.bucket("alias_reachable");
            alts.push(("alias-A+r", alias.low_bits(nb), Some(alias.shr(nb))));
        }
        alts.push(("other-integer", U320::from_scalar(&rand_scalar(&mut rng)).low_bits(nb), None));
        alts.push(("A+1", la.add(&U320::from_u64(1)).low_bits(nb), None));
        for (n, la2, high2) in alts {
            if la2 == la {
                continue;
            }
            let out2 = U320::from_scalar(&bitop(&la2.to_scalar(), &lb.to_scalar(), nb, xor));
            let mut f = Forge::new();
            logic_chains(&h, p, &la2, &lb, &out2, &mut f);
            if let Some(hi) = high2 {
                f.insert(high_a, hi.to_scalar());
            }
            lab.adversary(&case, &h, &format!("decouple-left:{n}"), &f);
            // the right column decoupled the same way (no alias needed)
            if high2.is_none() && la2 != lb {
                let out2 = U320::from_scalar(&bitop(&la.to_scalar(), &la2.to_scalar(), nb, xor));
                let mut f = Forge::new();
                logic_chains(&h, p, &la, &la2, &out2, &mut f);
                lab.adversary(&case, &h, &format!("decouple-right:{n}"), &f);
            }
            // the same on the right input
            let ub_alias = ub.add(&r);
            if n == "alias-A+r" && ub_alias.lt(&U320::pow2(255)) {
                let lb2 = ub_alias.low_bits(nb);
                let out3 = U320::from_scalar(&bitop(&la.to_scalar(), &lb2.to_scalar(), nb, xor));
                let mut f = Forge::new();
                logic_chains(&h, p, &la, &lb2, &out3, &mut f);
                f.insert(high_b, ub_alias.shr(nb).to_scalar());
                lab.adversary(&case, &h, "decouple-right:alias-B+r", &f);
            }
        }
        // (c) product wire steering + every helper, one at a time
        for j in 0..p.min(3) {
            let w = h.own.start + 4 * j + 2;
            for delta in [1u64, 4, 9] {
                let mut f = Forge::new();
                f.insert(w, h.snap.witnesses[w] + BlsScalar::from(delta));
                lab.adversary(&case, &h, &format!("product-wire:+{delta}"), &f);
            }
        }
        for (name, forge) in substitutions(&h, &mut rng, 2, tier.pick(10, 40)) {
            lab.adversary(&case, &h, &name, &forge);
        }
        if ci % tier.pick(16, 4) == 0 {
            lab.confirm(&case, &h, None);
        }
    });
    ev.floor("(operation, pair count) combinations", ev.set_len("pair_counts") as u64, 256);
    ev.floor("adversarial assignments", ev.bucket_get("adversarial"), 256 * 2 * per);
    ev.floor("alias splits attempted", ev.bucket_get("alias_reachable"), 50);
    ev.floor("claim-output adversaries", ev.bucket_get("adversary.claim-output"), 500);
    ev.floor("decouple adversaries", ev.bucket_get("adversary.decouple-left"), 500);
    ev.floor("right-column decouple adversaries", ev.bucket_get("adversary.decouple-right"), 500);
    ev.floor("operand wirings", ev.set_len("wirings") as u64, 4);
    ev.floor("cases with the same witness on both sides", ev.bucket_get("wiring.same-witness"), 100);
    ev.floor("end-to-end confirmations", ev.bucket_get("end_to_end"), tier.pick(40, 700));
    ev.floor("near-miss assignments (one sub-identity on one row) refused by the real prover", ev.bucket_get("near_miss.end_to_end"), 60);
    ev.floor("sub-identities covered by near misses", ev.set_len("near_miss_identities") as u64, 6);
    ev.floor("cases run in a context of earlier calls on the operands", ev.bucket_get("context.cases"), 100);
    ev.floor("copy-constraint-only forgeries on a consumer of the returned witness, through the real prover", ev.bucket_get("copybreak.end_to_end"), 4);
    ev.finish()
}
