//! C06 — zero-knowledge masking: every opened polynomial is freshly blinded.
//!
//! Events: the scripted RNG's call log, the proof bytes, the instance
//! snapshot of the same `prove` call, the SRS bytes. Oracle in steps:
//!  1. randomness accounting (exactly 14 draws of 64 bytes, nothing else);
//!  2. order-agnostic mask matching on the evaluations at z and z*omega;
//!  2b. the same masks on the commitments (wire and permutation polynomials);
//!  3. quotient shares and the whole proof against the naive prover
//!     (domains up to 256 rows in the quick tier, 512 in the thorough one);
//!  4. freshness of two proofs of one witness.

use std::sync::Arc;

use dusk_bls12_381::{BlsScalar, G1Affine, G1Projective};
use dusk_bytes::Serializable;
use dusk_plonk::prelude::PlonkVersion;
use rand_core::RngCore;
use serde_json::json;

use super::common;
use crate::gen::build::{self, GenCfg};
use crate::gen::program::HC;
use crate::mon::evidence::{Ev, Tier};
use crate::mon::panic::guard;
use crate::mon::rng::{case_rng, RngCall, ScriptedRng};
use crate::refimpl::fft as rf;
use crate::refimpl::kzg as rk;
use crate::refimpl::perm;
use crate::refimpl::prover as rp;
use crate::refimpl::sat;
use crate::refimpl::verifier::{self as rv, Version};
use crate::util::{hx, par_cases, rand_scalar, threads};

fn script(rng: &mut impl RngCore, style: u64) -> Vec<BlsScalar> {
    match style % 4 {
        0 => (1..=14u64).map(BlsScalar::from).collect(),
        1 => (0..14u64).map(|i| -BlsScalar::from(i + 1)).collect(),
        _ => {
            // random, all distinct and non-zero
            let mut v: Vec<BlsScalar> = Vec::new();
            while v.len() < 14 {
                let x = rand_scalar(rng);
                if x != BlsScalar::zero() && !v.contains(&x) {
                    v.push(x);
                }
            }
            v
        }
    }
}

pub fn run(tier: Tier, seed: u64) -> i32 {
    let ev = Ev::new("C06", tier, seed);
    ev.set_rule(
        "cases = (circuit, witness, scripted RNG stream): the 14 scripted draws are all distinct and non-zero; \
         the monitor re-derives the challenges from the proof (R-VER transcript), evaluates the unmasked wire \
         and permutation polynomials from the snapshot of the same prove call, and searches the draws for the \
         unique disjoint assignment that explains every masked evaluation and commitment; for domains up to 256 (thorough: 512) rows the naive \
         prover rebuilds the quotient shares and the whole proof; non-trivial = all 14 draws distinct and \
         non-zero and the circuit has >= 1 custom or public-input row (a separate bucket scripts zero draws at \
         every position and checks the randomness accounting only); distinct = fingerprint of (circuit, script)",
    );
    ev.assume("the scripted RNG returns draw k as the k-th 64-byte fill; BlsScalar::random reduces the 64 bytes wide");
    let n_cases = tier.pick(48u64, 1200u64);
    par_cases(n_cases, threads(), |ci| {
        let mut rng = case_rng(seed, "C06", ci);
        let rows = [6usize, 9, 14, 20, 30, 45, 60, 100, 200, 500, 1000, 3000][ci as usize % 12];
        let rows = if tier == Tier::Quick && rows > 1000 { 700 } else { rows };
        let mut cfg = GenCfg::all();
        cfg.heavy = rows >= 500;
        // every fourth circuit has wire polynomials whose top one or two
        // coefficients vanish (degree < n - 1): the mask must still sit on
        // X^n, X^(n+1) and nowhere else
        let low = ci % 4 == 3 && rows <= 1000;
        let b = if low {
            let levels = 1 + (ci as usize / 4) % 2;
            ev.bucket("low_degree_wire_columns");
            build::low_degree_columns(build::random_program(&mut rng, &cfg, rows - levels), levels)
        } else {
            build::random_program(&mut rng, &cfg, rows)
        };
        let families: Vec<&str> = b.families.iter().copied().collect();
        let (prog, inputs) = b.finish();
        let deg = common::min_degree(rows);
        let pp = crate::util::pp(deg);
        let compiled = match common::compile(&pp, format!("c06-{ci}").as_bytes(), &prog) {
            Ok(c) => c,
            Err(f) => {
                ev.violation("C06:compile-failed", json!({"error": f.text()}));
                return;
            }
        };
        // ---- zero draws: accounting only (a zero draw is a degenerate blinder for
        // the mask equations, but it must still be consumed exactly once) -----------
        {
            let hc0 = HC::new(prog.clone(), inputs.clone());
            for pos in [(ci % 14) as usize, ((ci * 5 + 11) % 14) as usize, 13 - (ci % 3) as usize] {
                let mut z = script(&mut rng, 2);
                z[pos] = BlsScalar::zero();
                if ci % 4 == 0 {
                    z[(pos + 1) % 14] = BlsScalar::zero();
                }
                let mut zr = ScriptedRng::new(&z);
                let zlog = zr.log();
                let r0 = guard(|| compiled.prover.prove(&mut zr, &hc0));
                let l = zlog.lock().unwrap();
                ev.bucket("zero_draw_scripts");
                ev.set_insert("zero_draw_positions", pos);
                let ok = l.calls.len() == 14 && l.calls.iter().all(|c| *c == RngCall::Fill(64)) && !l.overrun;
                if !ok {
                    ev.violation(
                        &format!("C06:randomness-accounting:zero-draw:{}-calls", l.calls.len()),
                        json!({"rows": rows, "zero_at": pos, "calls": l.calls.len(), "overrun": l.overrun}),
                    );
                }
                match r0 {
                    Ok(Ok((p0, pi0))) => {
                        // still a valid proof, and a pure function of the 14 draws
                        if common::verify(&compiled.verifier, &p0, &pi0, PlonkVersion::V3).is_err() {
                            ev.violation("C06:proof-with-zero-draw-rejected", json!({"rows": rows, "zero_at": pos}));
                        }
                        let again = guard(|| compiled.prover.prove(&mut ScriptedRng::new(&z), &hc0));
                        if let Ok(Ok((p1, _))) = again {
                            if p1.to_bytes() != p0.to_bytes() {
                                ev.violation("C06:proof-not-a-function-of-the-14-draws", json!({"rows": rows, "zero_at": pos}));
                            }
                        }
                    }
                    other => ev.violation("C06:prove-failed-with-zero-draw", json!({"rows": rows, "zero_at": pos, "got": format!("{:?}", other.map(|r| r.map(|_| ())))})),
                }
            }
        }
        let sc = script(&mut rng, ci / 12);
        let hc = HC::new(prog.clone(), inputs.clone());
        let mut srng = ScriptedRng::new(&sc);
        let log = srng.log();
        let _ = crate::gen::program::take_last();
        let r = guard(|| compiled.prover.prove(&mut srng, &hc));
        let inst = crate::gen::program::take_last();
        let (proof, pi) = match r {
            Ok(Ok(x)) => x,
            other => {
                ev.violation("C06:honest-prove-failed", json!({"got": format!("{:?}", other.map(|r| r.map(|_| ())))}));
                return;
            }
        };
        let Some((inst, _)) = inst else { return };
        let desc = json!({"rows": rows, "families": families, "script_style": (ci / 12) % 4, "ci": ci});
        ev.case(&desc, true);
        ev.set_insert("rows", rows);
        for f in &families {
            ev.set_insert("families", f);
        }
        // ---- step 1: randomness accounting -----------------------------------------
        {
            let l = log.lock().unwrap();
            let ok = l.calls.len() == 14 && l.calls.iter().all(|c| *c == RngCall::Fill(64)) && !l.overrun;
            ev.bucket("step1");
            if !ok {
                ev.violation(
                    &format!("C06:randomness-accounting:{}-calls", l.calls.len()),
                    json!({"case": desc, "calls": format!("{:?}", l.calls.iter().take(24).collect::<Vec<_>>()), "overrun": l.overrun}),
                );
                return;
            }
        }
        // ---- challenges and unmasked polynomials -------------------------------------
        let vbytes = compiled.verifier.to_bytes();
        let pbytes = proof.to_bytes();
        let (Ok(vk), Ok(pp_)) = (rv::parse_verifier(&vbytes), rv::parse_proof(&pbytes)) else {
            ev.violation("C06:cannot-parse-own-proof", json!({"case": desc}));
            return;
        };
        let ch = rv::challenges(&vk, &pp_, &pi, Version::V3);
        let wires = sat::wires_of(&inst);
        let n = wires.n;
        let omega = rf::root_of_unity(n);
        let zh = rf::pow(&ch.z, n as u64) - BlsScalar::one();
        let zw = ch.z * omega;
        let col = |k: usize| -> Vec<BlsScalar> { wires.w.iter().map(|w| w[k]).collect() };
        let sigma = perm::sigma_values(&compiled.layout);
        let zvals = perm::grand_product(&wires.w, &sigma, &ch.beta, &ch.gamma);
        // masks: (eval at z of masked - unmasked) / Z_H(z)
        let zh_inv = zh.invert().unwrap();
        let e = &pp_.e;
        let unmasked_at = |vals: &[BlsScalar], x: &BlsScalar| perm::barycentric(vals, x);
        let cols = [col(0), col(1), col(2), col(3)];
        let m_z: [BlsScalar; 4] = [
            (e[rv::E_A] - unmasked_at(&cols[0], &ch.z)) * zh_inv,
            (e[rv::E_B] - unmasked_at(&cols[1], &ch.z)) * zh_inv,
            (e[rv::E_C] - unmasked_at(&cols[2], &ch.z)) * zh_inv,
            (e[rv::E_D] - unmasked_at(&cols[3], &ch.z)) * zh_inv,
        ];
        // Z_H(z*omega) = Z_H(z)
        let m_zw: [Option<BlsScalar>; 4] = [
            Some((e[rv::E_AW] - unmasked_at(&cols[0], &zw)) * zh_inv),
            Some((e[rv::E_BW] - unmasked_at(&cols[1], &zw)) * zh_inv),
            None,
            Some((e[rv::E_DW] - unmasked_at(&cols[3], &zw)) * zh_inv),
        ];
        let m_perm = (e[rv::E_Z] - unmasked_at(&zvals, &zw)) * zh_inv;
        // ---- step 2: order-agnostic matching ----------------------------------------------
        let mut used = [false; 14];
        let mut assignment: Vec<(String, Vec<usize>)> = Vec::new();
        let mut failed: Option<String> = None;
        for k in 0..4 {
            let mut found = None;
            'search: for i in 0..14 {
                for j in 0..14 {
                    if i == j || used[i] || used[j] {
                        continue;
                    }
                    if sc[i] + sc[j] * ch.z == m_z[k] && m_zw[k].map(|m| sc[i] + sc[j] * zw == m).unwrap_or(true) {
                        found = Some((i, j));
                        break 'search;
                    }
                }
            }
            match found {
                Some((i, j)) => {
                    used[i] = true;
                    used[j] = true;
                    assignment.push((["a", "b", "c", "d"][k].to_string(), vec![i, j]));
                }
                None => {
                    failed = Some(format!("wire-{}", ["a", "b", "c", "d"][k]));
                    break;
                }
            }
        }
        if failed.is_none() {
            let mut found = None;
            'p: for i in 0..14 {
                for j in 0..14 {
                    for l in 0..14 {
                        if i == j || j == l || i == l || used[i] || used[j] || used[l] {
                            continue;
                        }
                        if sc[i] + sc[j] * zw + sc[l] * zw * zw == m_perm {
                            found = Some((i, j, l));
                            break 'p;
                        }
                    }
                }
            }
            match found {
                Some((i, j, l)) => {
                    used[i] = true;
                    used[j] = true;
                    used[l] = true;
                    assignment.push(("z".into(), vec![i, j, l]));
                }
                None => failed = Some("permutation".into()),
            }
        }
        ev.bucket("step2");
        if let Some(what) = failed {
            ev.violation(
                &format!("C06:mask-not-explained-by-distinct-draws:{what}"),
                json!({"case": desc, "script": crate::util::hxs(&sc), "matched_so_far": format!("{assignment:?}")}),
            );
            return;
        }
        ev.bucket("step2.matched");
        let rest: Vec<usize> = (0..14).filter(|i| !used[*i]).collect();
        if rest.len() != 3 {
            ev.violation("C06:draw-count-mismatch", json!({"case": desc}));
            return;
        }
        // ---- step 2b: the same masks on the commitments -------------------------------
        if n <= 512 {
            let Some(srs) = rk::parse_srs(&pp.to_var_bytes()) else { return };
            let pw = &srs.powers;
            let lin = |pts: &[(usize, BlsScalar)]| -> G1Projective {
                let mut acc = G1Projective::identity();
                for (i, s) in pts {
                    acc += G1Projective::from(pw[*i]) * *s;
                }
                acc
            };
            let comms = [pp_.a, pp_.b, pp_.c, pp_.d];
            for k in 0..4 {
                let coeffs = rf::idft(&cols[k], n);
                let base = G1Projective::from(rk::naive_commit(pw, &coeffs));
                let ij = &assignment[k].1;
                let (b0, b1) = (sc[ij[0]], sc[ij[1]]);
                let want: G1Affine = (base + lin(&[(n, b0), (0, -b0), (n + 1, b1), (1, -b1)])).into();
                ev.bucket("step2b");
                if want != comms[k] {
                    ev.violation(&format!("C06:wire-commitment-not-the-masked-polynomial:{}", ["a", "b", "c", "d"][k]), json!({"case": desc}));
                }
            }
            let coeffs = rf::idft(&zvals, n);
            let base = G1Projective::from(rk::naive_commit(pw, &coeffs));
            let t = &assignment[4].1;
            let (b0, b1, b2) = (sc[t[0]], sc[t[1]], sc[t[2]]);
            let want: G1Affine = (base + lin(&[(n, b0), (0, -b0), (n + 1, b1), (1, -b1), (n + 2, b2), (2, -b2)])).into();
            if want != pp_.z {
                ev.violation("C06:permutation-commitment-not-the-masked-polynomial", json!({"case": desc}));
            }
            // ---- step 3: quotient shares and the whole proof (naive prover) ----------
            if n <= tier.pick(256, 512) {
                ev.set_insert("step3_domains", n);
                let blinders = rp::Blinders {
                    wires: [
                        [sc[assignment[0].1[0]], sc[assignment[0].1[1]]],
                        [sc[assignment[1].1[0]], sc[assignment[1].1[1]]],
                        [sc[assignment[2].1[0]], sc[assignment[2].1[1]]],
                        [sc[assignment[3].1[0]], sc[assignment[3].1[1]]],
                    ],
                    perm: [b0, b1, b2],
                    quotient: [BlsScalar::zero(); 3],
                };
                let pbytes_key = compiled.prover.to_bytes();
                match rp::KeyPolys::from_prover_bytes(&pbytes_key) {
                    Some(key) => {
                        // the three remaining draws in each of the 6 orders
                        let mut matched = false;
                        let perms = [[0, 1, 2], [0, 2, 1], [1, 0, 2], [1, 2, 0], [2, 0, 1], [2, 1, 0]];
                        for p in perms {
                            let mut bl = blinders.clone();
                            bl.quotient = [sc[rest[p[0]]], sc[rest[p[1]]], sc[rest[p[2]]]];
                            if let Some(bytes) = rp::prove(&key, pw, &vk, &wires, &pi, &bl, Version::V3) {
                                if bytes == pbytes.to_vec() {
                                    matched = true;
                                    break;
                                }
                            }
                        }
                        ev.bucket("step3");
                        if matched {
                            ev.bucket("step3.byte_equal");
                        } else {
                            // localise: which commitments differ under the natural order
                            let mut bl = blinders.clone();
                            bl.quotient = [sc[rest[0]], sc[rest[1]], sc[rest[2]]];
                            let diff = rp::prove(&key, pw, &vk, &wires, &pi, &bl, Version::V3)
                                .map(|b| (0..26).filter(|f| b[super::c03::field_range(*f)] != pbytes[super::c03::field_range(*f)]).map(|f| super::c03::PROOF_FIELDS[f]).collect::<Vec<_>>())
                                .unwrap_or_default();
                            ev.violation(
                                &format!("C06:proof-differs-from-naive-prover:{}", diff.first().copied().unwrap_or("no-proof")),
                                json!({"case": desc, "fields_differing": diff, "script": crate::util::hxs(&sc)}),
                            );
                        }
                    }
                    None => ev.violation("C06:cannot-parse-prover-key", json!({"case": desc})),
                }
            }
        }
        // ---- step 4: freshness -------------------------------------------------------------
        {
            let sc2: Vec<BlsScalar> = sc.iter().map(|s| *s + BlsScalar::from(1000u64)).collect();
            let r2 = guard(|| compiled.prover.prove(&mut ScriptedRng::new(&sc2), &hc));
            if let Ok(Ok((proof2, _))) = r2 {
                let p2 = proof2.to_bytes();
                ev.bucket("step4");
                // witness-dependent (masked) fields must all differ
                let masked = [0usize, 1, 2, 3, 4, 5, 6, 7, 8, 9, 10, 11, 12, 13, 14, 15, 16, 17, 25];
                for f in masked {
                    let r = super::c03::field_range(f);
                    if pbytes[r.clone()] == p2[r] {
                        ev.violation(&format!("C06:two-proofs-share-a-masked-element:{}", super::c03::PROOF_FIELDS[f]), json!({"case": desc}));
                    }
                }
            }
        }
        let _ = (hx(&m_perm), Arc::strong_count(&prog), PlonkVersion::V3);
    });
    ev.floor("proofs through steps 1-2", ev.bucket_get("step2.matched"), tier.pick(30, 1000));
    ev.floor("commitment mask checks", ev.bucket_get("step2b"), tier.pick(80, 2000));
    ev.floor("proofs rebuilt byte for byte by the naive prover", ev.bucket_get("step3.byte_equal"), tier.pick(25, 500));
    ev.floor("domain sizes rebuilt by the naive prover", ev.set_len("step3_domains") as u64, tier.pick(6, 7));
    ev.floor("freshness pairs", ev.bucket_get("step4"), tier.pick(30, 1000));
    ev.floor("scripts with zero draws", ev.bucket_get("zero_draw_scripts"), tier.pick(100, 3000));
    ev.floor("zero-draw positions", ev.set_len("zero_draw_positions") as u64, 14);
    ev.floor("gate families", ev.set_len("families") as u64, 6);
    ev.floor("circuits whose wire polynomials have vanishing top coefficients", ev.bucket_get("low_degree_wire_columns"), tier.pick(8, 100));
    ev.finish()
}
