//! C03 — the verifier decides exactly the protocol's equation and transcript.
//!
//! Monitor: for every (verifier bytes, proof bytes, public inputs, version)
//! triple the real decision (checked decoders + `verify_with_version`) must
//! equal the decision of the independent textbook verifier R-VER.

use dusk_bls12_381::{BlsScalar, G1Affine};
use dusk_bytes::Serializable;
use dusk_plonk::prelude::Verifier;
use rand_core::RngCore;
use serde_json::json;

use super::common::{self, RealDecision, Specimen};
use crate::gen::build::GenCfg;
use crate::mon::evidence::{Ev, Tier};
use crate::mon::panic::panic_site;
use crate::mon::rng::case_rng;
use crate::refimpl::verifier::{self as rv, Decision, Version};
use crate::util::{par_cases, pool_scalar, rand_scalar, threads};

pub const PROOF_FIELDS: [&str; 26] = [
    "a_comm", "b_comm", "c_comm", "d_comm", "z_comm", "t_low_comm", "t_mid_comm", "t_high_comm", "t_fourth_comm",
    "w_z_comm", "w_zw_comm", "a_eval", "b_eval", "c_eval", "d_eval", "a_w_eval", "b_w_eval", "d_w_eval",
    "q_arith_eval", "q_c_eval", "q_l_eval", "q_r_eval", "s_sigma_1_eval", "s_sigma_2_eval", "s_sigma_3_eval", "z_eval",
];

pub fn field_range(i: usize) -> std::ops::Range<usize> {
    if i < 11 {
        48 * i..48 * (i + 1)
    } else {
        let j = i - 11;
        528 + 32 * j..528 + 32 * (j + 1)
    }
}

pub struct Judge<'a> {
    pub ev: &'a Ev,
    pub prefix: &'static str,
}

impl Judge<'_> {
    /// Compare both deciders on one triple. `kind` names the mutation class.
    /// Returns (real accepts, reference accepts).
    pub fn triple(
        &self,
        kind: &str,
        verifier: Option<&Verifier>,
        vbytes: &[u8],
        pbytes: &[u8],
        pi: &[BlsScalar],
        version: Version,
        desc: serde_json::Value,
    ) -> (bool, bool) {
        let ev = self.ev;
        dusk_plonk::verif::start_challenge_log();
        let real = match verifier {
            Some(v) => common::real_decide_with(v, pbytes, pi, common::to_plonk_version(version)),
            None => common::real_decide(vbytes, pbytes, pi, common::to_plonk_version(version)),
        };
        let real_challenges = dusk_plonk::verif::take_challenge_log();
        let reference = rv::decide(vbytes, pbytes, pi, version);
        // transcript monitor: every challenge the real verifier derived must be
        // the one the specified transcript yields
        if !real_challenges.is_empty() {
            if let (Ok(vk), Ok(pp)) = (rv::parse_verifier(vbytes), rv::parse_proof(pbytes)) {
                if pi.len() == vk.pi_rows.len() {
                    let ch = rv::challenges(&vk, &pp, pi, version);
                    let want = [("beta", ch.beta), ("gamma", ch.gamma), ("alpha", ch.alpha), ("range", ch.range), ("logic", ch.logic),
                        ("fixed", ch.fixed), ("var", ch.var), ("z", ch.z), ("v", ch.v), ("v_w", ch.v_w), ("u", ch.u)];
                    self.ev.bucket("challenge_logs_compared");
                    for (name, value) in &real_challenges {
                        match want.iter().find(|(n, _)| n == name) {
                            Some((_, w)) if w == value => {}
                            _ => {
                                self.ev.violation(
                                    &format!("{}:challenge-differs-from-specified-transcript:{}", self.prefix, name),
                                    json!({"kind": kind, "version": format!("{version:?}"), "challenge": name, "real": crate::util::hx(value),
                                        "proof": hex::encode(pbytes), "verifier": hex::encode(vbytes), "pi": crate::util::hxs(pi)}),
                                );
                                break;
                            }
                        }
                    }
                    if real_challenges.len() != 11 && real.accepts() {
                        self.ev.violation(&format!("{}:accepted-with-{}-challenges-derived", self.prefix, real_challenges.len()), json!({"kind": kind}));
                    }
                }
            }
        }
        let decoded = !matches!(reference, Decision::BadProof(_) | Decision::BadVerifier(_));
        let d = json!({"kind": kind, "version": format!("{version:?}"), "detail": desc,
            "real": format!("{real:?}").chars().take(80).collect::<String>(), "reference": format!("{reference:?}")});
        ev.case(&d, decoded);
        ev.bucket(&format!("kind.{kind}"));
        if decoded {
            ev.bucket("decoded");
        } else {
            ev.bucket("undecodable");
        }
        ev.bucket(if real.accepts() { "real.accept" } else { "real.reject" });
        if real.accepts() {
            ev.bucket(&format!("accepted.{kind}"));
        }
        ev.bucket(if reference.accepts() { "ref.accept" } else { "ref.reject" });
        if let RealDecision::Panic(p) = &real {
            ev.violation(
                &format!("{}:verifier-panicked:{}:{}", self.prefix, kind, panic_site(p)),
                json!({"case": d, "proof": hex::encode(pbytes), "verifier": hex::encode(vbytes), "pi": crate::util::hxs(pi)}),
            );
            return (false, reference.accepts());
        }
        if real.accepts() != reference.accepts() {
            let dir = if real.accepts() { "real-accepts-reference-rejects" } else { "real-rejects-reference-accepts" };
            ev.violation(
                &format!("{}:decision-differs:{}:{}", self.prefix, kind, dir),
                json!({"case": d, "proof": hex::encode(pbytes), "verifier": hex::encode(vbytes), "pi": crate::util::hxs(pi)}),
            );
        }
        (real.accepts(), reference.accepts())
    }
}

fn g1_alternatives(rng: &mut impl RngCore) -> Vec<(&'static str, [u8; 48])> {
    let gen = G1Affine::generator();
    let neg: G1Affine = (-dusk_bls12_381::G1Projective::from(gen)).into();
    let rnd: G1Affine = (dusk_bls12_381::G1Projective::from(gen) * rand_scalar(rng)).into();
    vec![
        ("identity", G1Affine::identity().to_bytes()),
        ("generator", gen.to_bytes()),
        ("-generator", neg.to_bytes()),
        ("random-point", rnd.to_bytes()),
    ]
}

fn scalar_alternatives(rng: &mut impl RngCore) -> Vec<(&'static str, [u8; 32])> {
    vec![
        ("0", BlsScalar::zero().to_bytes()),
        ("1", BlsScalar::one().to_bytes()),
        ("-1", (-BlsScalar::one()).to_bytes()),
        ("random", rand_scalar(rng).to_bytes()),
        ("pool", pool_scalar(rng).to_bytes()),
    ]
}

pub fn run(tier: Tier, seed: u64) -> i32 {
    let ev = Ev::new("C03", tier, seed);
    ev.set_rule(
        "cases = (verifier bytes, proof bytes, public inputs, version) triples: honest proofs of generated \
         circuits, every single-bit flip of a proof, each proof field replaced by other valid elements, \
         proofs shown to other circuits' verifiers, edited verifier bytes, edited public inputs, all version \
         pairs; both the real verifier and R-VER decide each triple; non-trivial = the triple decodes (both \
         sides evaluate the equation); distinct = fingerprint of (mutation, both decisions)",
    );
    ev.assume("merlin, field/group arithmetic and pairing of dusk-bls12_381 are correct; R-VER was written from the protocol, its labels and order are the specification");
    let judge = Judge { ev: &ev, prefix: "C03" };

    // specimens
    let n_spec = tier.pick(6usize, 16usize);
    let sizes: Vec<usize> = match tier {
        Tier::Quick => vec![8, 19, 33, 64, 130, 600],
        Tier::Thorough => vec![8, 9, 16, 19, 33, 64, 100, 130, 255, 256, 400, 600, 1024, 1500, 2100, 4000],
    };
    let specs: Vec<Option<Specimen>> = {
        let slots: Vec<std::sync::Mutex<Option<Specimen>>> = (0..n_spec).map(|_| std::sync::Mutex::new(None)).collect();
        par_cases(n_spec as u64, threads(), |i| {
            let mut rng = case_rng(seed, "C03.spec", i);
            let mut cfg = GenCfg::all();
            cfg.heavy = sizes[i as usize] >= 600;
            let label = format!("c03-label-{i}");
            match common::specimen(&mut rng, &cfg, sizes[i as usize], label.as_bytes()) {
                Ok(s) => *slots[i as usize].lock().unwrap() = Some(s),
                Err(e) => ev.violation(&format!("C03:specimen-failed:{}", e.chars().take(40).collect::<String>()), json!({"i": i, "error": e})),
            }
        });
        slots.into_iter().map(|m| m.into_inner().unwrap()).collect()
    };
    let specs: Vec<Specimen> = specs.into_iter().flatten().collect();
    if specs.len() < 2 {
        ev.inconclusive("fewer than two specimens");
        return ev.finish();
    }
    for s in &specs {
        for f in &s.families {
            ev.set_insert("families", f);
        }
        ev.set_insert("rows", s.rows);
    }

    // 1. honest proofs and version pairs
    for (i, s) in specs.iter().enumerate() {
        for (pv, pbytes) in [(Version::V3, &s.proof_v3), (Version::V2, &s.proof_v2)] {
            for vv in [Version::V1, Version::V2, Version::V3] {
                let (r, _) = judge.triple("honest-version-pair", Some(&s.compiled.verifier), &s.vbytes, pbytes, &s.pi, vv,
                    json!({"spec": i, "proved_as": format!("{pv:?}")}));
                if pv == vv && !r {
                    ev.violation("C03:honest-proof-rejected", json!({"spec": i, "version": format!("{vv:?}"), "ops": s.prog.tags()}));
                }
            }
        }
    }

    // 2. exhaustive single-bit flips
    let flip_specs = tier.pick(1usize, 6usize).min(specs.len());
    for (si, s) in specs.iter().take(flip_specs).enumerate() {
        let base = &s.proof_v3;
        par_cases(1008 * 8, threads(), |bit| {
            let mut p = base.clone();
            p[(bit / 8) as usize] ^= 1 << (bit % 8);
            let field = (0..26).find(|f| field_range(*f).contains(&((bit / 8) as usize))).unwrap();
            judge.triple("bit-flip", Some(&s.compiled.verifier), &s.vbytes, &p, &s.pi, Version::V3,
                json!({"spec": si, "bit": bit, "field": PROOF_FIELDS[field]}));
        });
    }

    // 3. field replacement
    par_cases(specs.len() as u64 * 26, threads(), |ci| {
        let si = (ci / 26) as usize;
        let f = (ci % 26) as usize;
        let s = &specs[si];
        let mut rng = case_rng(seed, "C03.field", ci);
        let other = &specs[(si + 1) % specs.len()];
        let mut alts: Vec<(String, Vec<u8>)> = Vec::new();
        if f < 11 {
            for (n, b) in g1_alternatives(&mut rng) {
                alts.push((n.to_string(), b.to_vec()));
            }
            for g in 0..11 {
                if g != f {
                    alts.push((format!("own:{}", PROOF_FIELDS[g]), s.proof_v3[field_range(g)].to_vec()));
                }
            }
            alts.push(("other-proof-same-field".into(), other.proof_v3[field_range(f)].to_vec()));
            alts.push(("own-v2-proof-same-field".into(), s.proof_v2[field_range(f)].to_vec()));
        } else {
            for (n, b) in scalar_alternatives(&mut rng) {
                alts.push((n.to_string(), b.to_vec()));
            }
            for g in 11..26 {
                if g != f {
                    alts.push((format!("own:{}", PROOF_FIELDS[g]), s.proof_v3[field_range(g)].to_vec()));
                }
            }
            alts.push(("other-proof-same-field".into(), other.proof_v3[field_range(f)].to_vec()));
            alts.push(("own-v2-proof-same-field".into(), s.proof_v2[field_range(f)].to_vec()));
            // +1
            let mut a = [0u8; 32];
            a.copy_from_slice(&s.proof_v3[field_range(f)]);
            if let Some(v) = Option::<BlsScalar>::from(BlsScalar::from_bytes(&a)) {
                alts.push(("plus-one".into(), (v + BlsScalar::one()).to_bytes().to_vec()));
            }
        }
        for (name, bytes) in alts {
            let mut p = s.proof_v3.clone();
            if p[field_range(f)] == bytes[..] {
                continue;
            }
            p[field_range(f)].copy_from_slice(&bytes);
            judge.triple("field-replaced", Some(&s.compiled.verifier), &s.vbytes, &p, &s.pi, Version::V3,
                json!({"spec": si, "field": PROOF_FIELDS[f], "with": name}));
        }
    });

    // 4. cross-circuit
    for (i, s) in specs.iter().enumerate() {
        for (j, o) in specs.iter().enumerate() {
            if i == j {
                continue;
            }
            judge.triple("cross-circuit", Some(&o.compiled.verifier), &o.vbytes, &s.proof_v3, &s.pi, Version::V3, json!({"proof_of": i, "verifier_of": j}));
            if o.pi.len() != s.pi.len() {
                judge.triple("cross-circuit", Some(&o.compiled.verifier), &o.vbytes, &s.proof_v3, &o.pi, Version::V3, json!({"proof_of": i, "verifier_of": j, "pi": "verifier's"}));
            }
        }
    }

    // 5. verifier byte edits (decoded from bytes each time)
    par_cases(specs.len() as u64, threads(), |si| {
        let s = &specs[si as usize];
        let mut rng = case_rng(seed, "C03.vedit", si);
        let label_len = s.label.len();
        let vk_off = 48 + label_len;
        let ok_off = vk_off + 8 + 20 * 48;
        let pi_off = ok_off + 240;
        let mut edits: Vec<(String, Vec<u8>)> = Vec::new();
        // header fields: size and constraints
        for (name, off) in [("size-field", 32usize), ("constraints-field", 40)] {
            for delta in [1u64, 2, 0x100] {
                let mut v = s.vbytes.clone();
                let cur = u64::from_be_bytes(v[off..off + 8].try_into().unwrap());
                v[off..off + 8].copy_from_slice(&cur.wrapping_add(delta).to_be_bytes());
                edits.push((format!("{name}+{delta}"), v));
                let mut v = s.vbytes.clone();
                v[off..off + 8].copy_from_slice(&cur.wrapping_sub(delta).to_be_bytes());
                edits.push((format!("{name}-{delta}"), v));
            }
        }
        // vk.n (little-endian u64 at the start of the verifier key)
        for delta in [1i64, -1, 2, 64] {
            let mut v = s.vbytes.clone();
            let cur = u64::from_le_bytes(v[vk_off..vk_off + 8].try_into().unwrap());
            v[vk_off..vk_off + 8].copy_from_slice(&(cur as i64 + delta).max(0).to_le_bytes());
            edits.push((format!("vk.n{delta:+}"), v));
        }
        // label bytes
        if label_len > 0 {
            let mut v = s.vbytes.clone();
            v[48 + rng.next_u32() as usize % label_len] ^= 1;
            edits.push(("label-bit".into(), v));
        }
        // each commitment replaced by another commitment of the key / generator
        for c in 0..15 {
            let other = (c + 1 + rng.next_u32() as usize % 14) % 15;
            let mut v = s.vbytes.clone();
            let src = v[vk_off + 8 + 48 * other..vk_off + 8 + 48 * (other + 1)].to_vec();
            if v[vk_off + 8 + 48 * c..vk_off + 8 + 48 * (c + 1)] != src[..] {
                v[vk_off + 8 + 48 * c..vk_off + 8 + 48 * (c + 1)].copy_from_slice(&src);
                edits.push((format!("vk.comm[{c}]<-comm[{other}]"), v));
            }
            let mut v = s.vbytes.clone();
            v[vk_off + 8 + 48 * c..vk_off + 8 + 48 * (c + 1)].copy_from_slice(&G1Affine::generator().to_bytes());
            edits.push((format!("vk.comm[{c}]<-generator"), v));
        }
        // opening key g replaced
        {
            let mut v = s.vbytes.clone();
            let two: G1Affine = (dusk_bls12_381::G1Projective::generator() * BlsScalar::from(2u64)).into();
            v[ok_off..ok_off + 48].copy_from_slice(&two.to_bytes());
            edits.push(("opening.g<-2G".into(), v));
        }
        // public input indexes
        let npi = s.pi.len();
        for k in 0..npi.min(3) {
            for delta in [1u64, 2] {
                let mut v = s.vbytes.clone();
                let off = pi_off + 8 * k;
                let cur = u64::from_be_bytes(v[off..off + 8].try_into().unwrap());
                v[off..off + 8].copy_from_slice(&(cur + delta).to_be_bytes());
                edits.push((format!("pi-index[{k}]+{delta}"), v));
            }
        }
        // trailing bytes in the padding of the verifier key (documented ignored area)
        {
            let mut v = s.vbytes.clone();
            v[vk_off + 8 + 15 * 48 + 5] ^= 0x40;
            edits.push(("vk.padding-bit".into(), v));
        }
        for (name, v) in edits {
            let (acc, _) = judge.triple("verifier-edit", None, &v, &s.proof_v3, &s.pi, Version::V3, json!({"spec": si, "edit": name}));
            if acc {
                ev.set_insert("accepted_verifier_edits", name.split('[').next().unwrap());
            }
        }
    });

    // 6. public input edits
    par_cases(specs.len() as u64, threads(), |si| {
        let s = &specs[si as usize];
        let mut rng = case_rng(seed, "C03.pi", si);
        let mut variants: Vec<(String, Vec<BlsScalar>)> = Vec::new();
        for k in 0..s.pi.len() {
            let mut p = s.pi.clone();
            p[k] += BlsScalar::one();
            variants.push((format!("pi[{k}]+1"), p));
            let mut p = s.pi.clone();
            p[k] = pool_scalar(&mut rng);
            variants.push((format!("pi[{k}]<-pool"), p));
        }
        let mut p = s.pi.clone();
        p.push(BlsScalar::zero());
        variants.push(("extended".into(), p));
        if !s.pi.is_empty() {
            let mut p = s.pi.clone();
            p.pop();
            variants.push(("truncated".into(), p));
            let mut p = s.pi.clone();
            p.reverse();
            variants.push(("reversed".into(), p));
        }
        for (name, p) in variants {
            if p == s.pi {
                continue;
            }
            judge.triple("pi-edit", Some(&s.compiled.verifier), &s.vbytes, &s.proof_v3, &p, Version::V3, json!({"spec": si, "edit": name}));
        }
    });

    // 7. label families: the label is the first thing the transcript absorbs,
    // in full. One small program is compiled and proved, in this one process
    // and in a scrambled order, under labels that share long prefixes / long
    // suffixes / differ only by trailing NUL bytes or in length; every proof
    // is shown to every verifier of its family. R-VER reads the label from
    // the verifier bytes, so any history- or prefix-dependence of the real
    // transcript shows as a decision or challenge difference.
    {
        let s = &specs[0];
        let pp = crate::util::pp(common::min_degree(s.rows));
        let mut rng = case_rng(seed, "C03.labels", 0);
        let mut fams: Vec<Vec<Vec<u8>>> = Vec::new();
        for p in [0usize, 1, 7, 8, 15, 16, 31, 32, 33, 48, 63, 64, 65, 127, 128, 200] {
            let fill = 0x41 + (p % 7) as u8;
            let pre = vec![fill; p];
            let mut f: Vec<Vec<u8>> = Vec::new();
            f.push(pre.clone());
            for tail in [&b"a"[..], b"b", b"a\0", b"\0", b"ab", b"ba"] {
                let mut l = pre.clone();
                l.extend_from_slice(tail);
                f.push(l);
            }
            // common suffix instead of common prefix
            for head in [&b"x"[..], b"y"] {
                let mut l = head.to_vec();
                l.extend_from_slice(&pre);
                f.push(l);
            }
            // same length, differing in the middle byte
            if p >= 3 {
                let mut l = pre.clone();
                l[p / 2] ^= 0x20;
                f.push(l);
            }
            f.sort();
            f.dedup();
            // scramble the order of first use
            for i in (1..f.len()).rev() {
                f.swap(i, rng.next_u32() as usize % (i + 1));
            }
            fams.push(f);
        }
        par_cases(fams.len() as u64, threads(), |fi| {
            let fi = fi as usize;
            let fam = &fams[fi];
            let mut rng = case_rng(seed, "C03.labels.family", fi as u64);
            let mut made: Vec<(Vec<u8>, common::Compiled, Vec<u8>, Vec<u8>, Vec<BlsScalar>)> = Vec::new();
            for l in fam {
                match common::compile(&pp, l, &s.prog) {
                    Ok(c) => {
                        let p = common::prove(&c.prover, &s.prog, &s.inputs, &[], &mut rng, dusk_plonk::prelude::PlonkVersion::V3);
                        match p.result {
                            Ok((proof, pi)) => {
                                let vb = c.verifier.to_bytes();
                                made.push((l.clone(), c, vb, proof.to_bytes().to_vec(), pi));
                            }
                            Err(f) => ev.violation("C03:label-family:prove-failed", json!({"label": hex::encode(l), "error": f.text()})),
                        }
                    }
                    Err(f) => ev.violation("C03:label-family:compile-failed", json!({"label": hex::encode(l), "error": f.text()})),
                }
            }
            for (i, (li, _, _, proof_i, pi_i)) in made.iter().enumerate() {
                for (j, (lj, cj, vbj, _, _)) in made.iter().enumerate() {
                    let d = json!({"family": fi, "proof_label": hex::encode(li), "verifier_label": hex::encode(lj)});
                    let (acc, _) = judge.triple("label-family", Some(&cj.verifier), vbj, proof_i, pi_i, Version::V3, d.clone());
                    if i == j && !acc {
                        ev.violation("C03:label-family:honest-proof-rejected", d.clone());
                    }
                    if i != j && (i + j) % 3 == 0 {
                        // the same pair through the checked decoder
                        judge.triple("label-family-decoded", None, vbj, proof_i, pi_i, Version::V3, d);
                    }
                }
            }
            ev.set_insert("label_family_prefix_lengths", fam.iter().map(|l| l.len()).min().unwrap_or(0));
        });
    }

    ev.floor("label-family triples", ev.bucket_get("kind.label-family"), 800);
    ev.floor("decoded triples", ev.bucket_get("decoded"), 1000);
    ev.floor("real accepts", ev.bucket_get("real.accept"), 4);
    ev.floor("real rejects", ev.bucket_get("real.reject"), 500);
    ev.floor("reference accepts", ev.bucket_get("ref.accept"), 4);
    ev.floor("gate families in honest circuits", ev.set_len("families") as u64, 6);
    ev.floor("bit flips", ev.bucket_get("kind.bit-flip"), 8064);
    ev.floor("challenge logs compared", ev.bucket_get("challenge_logs_compared"), 3000);
    ev.finish()
}
