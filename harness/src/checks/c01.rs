//! C01 — completeness: every satisfied circuit proves and verifies, through
//! all three routes (direct compile, compressed description, own bytes).

use std::sync::Arc;

use dusk_bls12_381::BlsScalar;
use dusk_bytes::Serializable;
use dusk_plonk::prelude::{Compiler, PlonkVersion, Prover, Verifier};
use rand_core::RngCore;
use serde_json::json;

use super::common::{self, Fail};
use crate::gen::build::{self, GenCfg};
use crate::gen::program::{Op, Pi};
use crate::mon::evidence::{Ev, Tier};
use crate::mon::panic::{guard, panic_site};
use crate::mon::rng::case_rng;
use crate::refimpl::{sat, verifier as rv};
use crate::util::{par_cases, pool_scalar, threads};

fn short(f: &Fail) -> String {
    match f {
        Fail::Err(e) => format!("{e:?}").split(['(', '{', ' ']).next().unwrap_or("").to_string(),
        Fail::Panic(p) => format!("panic@{}", panic_site(p)),
    }
}

pub fn run(tier: Tier, seed: u64) -> i32 {
    let ev = Ev::new("C01", tier, seed);
    ev.set_rule(
        "cases = (program with exact row count 2^k+offset, public-input placement, label, SRS capacity); \
         each is compiled through three routes, proved with each prover and every proof is checked by \
         every verifier and by R-VER; non-trivial = R-SAT confirms the instance satisfied, the program has \
         >= 1 user row and verification was reached; distinct = fingerprint of the case descriptor",
    );
    ev.assume("R-SAT and R-VER as in C05 / C03");
    let mut cases: Vec<(u32, i32)> = Vec::new();
    let (full_k, edge_k): (Vec<u32>, Vec<u32>) = match tier {
        Tier::Quick => ((3..=8).collect(), vec![9, 10]),
        Tier::Thorough => ((3..=11).collect(), vec![12, 13, 14]),
    };
    for k in &full_k {
        for off in -8i32..=8 {
            cases.push((*k, off));
        }
    }
    for k in &edge_k {
        for off in [-8i32, -7, -6, -1, 0, 1, 8] {
            cases.push((*k, off));
        }
    }
    // random op-sequence programs of arbitrary size between the sweeps (the
    // sweep above only visits neighbourhoods of powers of two): encoded as
    // k = 0 and the row count in the offset field
    let n_free = tier.pick(40usize, 600usize);
    let free_from = cases.len();
    {
        let mut r = case_rng(seed, "C01.free", 0);
        for _ in 0..n_free {
            let rows = match r.next_u32() % 4 {
                0 => 6 + r.next_u32() % 40,
                1 => 40 + r.next_u32() % 200,
                2 => 200 + r.next_u32() % 500,
                _ => 6 + r.next_u32() % 1100,
            };
            cases.push((0, rows as i32));
        }
    }
    let free_to = cases.len();
    // the minimal domains: a gate-free circuit (the 4 rows every composer
    // starts with, domain n = 4) and a single user row, at three capacities
    // each (k = 2, offsets 0 and 1; three entries so that ci % 3 visits every
    // capacity class)
    let tiny_from = cases.len();
    for _ in 0..3 {
        cases.push((2, 0));
        cases.push((2, 1));
    }
    par_cases(cases.len() as u64, threads(), |ci| {
        let (k, off) = cases[ci as usize];
        let free = (free_from..free_to).contains(&(ci as usize));
        let rows_i = if free { off as i64 } else { (1i64 << k) + off as i64 };
        if rows_i < 6 && (ci as usize) < tiny_from {
            return;
        }
        let rows = rows_i as usize;
        let mut rng = case_rng(seed, "C01", ci);
        let mut cfg = GenCfg::all();
        cfg.heavy = rows >= 500 && ci % 2 == 0;
        // every other exactly-full domain holds arithmetic rows only: q_arith
        // is then the constant polynomial 1 and the custom-gate selectors are
        // zero polynomials (key polynomials of minimal length)
        let uniform = !free && off == 0 && k % 2 == 0;
        if uniform {
            cfg = GenCfg::arith_only();
            ev.bucket("all_arithmetic_full_domain");
        }
        let variant = if rows < 6 { 0 } else { (ci + (seed % 6)) % 6 };
        // number of trailing scalar inputs that are free (wired to blank rows only)
        let mut free_inputs = 0usize;
        // --- program with the requested PI placement -------------------------
        let b = match variant {
            1 => {
                // PI on the first user row
                let mut b = build::Builder::new();
                let i = b.scalar_input(pool_scalar(&mut rng));
                b.push(Op::Public(i)).unwrap();
                let mut b2 = build::random_program_from(b, &mut rng, &cfg, rows);
                let _ = &mut b2;
                b2
            }
            2 | 3 => {
                // PI on the last row (and the one before it for variant 3)
                let keep = if variant == 3 { 2 } else { 1 };
                let mut b = build::random_program(&mut rng, &cfg, rows - keep);
                for j in 0..keep {
                    let r = rng.next_u32() as usize % b.nregs();
                    let piv = if j == 0 && ci % 3 == 0 { BlsScalar::zero() } else { pool_scalar(&mut rng) };
                    let i = b.scalar_input(piv);
                    let kconst = b.val(r) - piv;
                    b.push(Op::AssertEqConst(r, kconst, Pi::Input(i))).unwrap();
                }
                b
            }
            5 if rows >= 10 && rows <= 1100 => {
                // wire polynomials of degree < n - levels (their top
                // coefficients vanish), which random witnesses never give
                let levels = 1 + (ci as usize / 6) % 2;
                let b = build::random_program(&mut rng, &cfg, rows - levels);
                let b = build::low_degree_columns(b, levels);
                ev.bucket("low_degree_wire_columns");
                free_inputs = 4 * levels;
                b
            }
            _ => build::random_program(&mut rng, &cfg, rows),
        };
        assert_eq!(b.rows(), rows);
        let families: Vec<&str> = b.families.iter().copied().collect();
        let (prog, inputs) = b.finish();
        let label: Vec<u8> = {
            let len = [0usize, 1, 7, 32, 64][rng.next_u32() as usize % 5];
            (0..len).map(|_| rng.next_u32() as u8).collect()
        };
        let s_min = common::min_degree(rows);
        let (cap_name, deg) = match ci % 3 {
            0 => ("minimal", s_min),
            1 => ("double", 2 * s_min),
            _ => ("minimal+3", s_min + 3),
        };
        let desc = json!({"rows": rows, "k": k, "offset": off, "pi_variant": variant, "label_len": label.len(),
            "capacity": cap_name, "degree": deg, "families": families, "ops": prog.ops.len()});
        let fail = |sig: &str, extra: serde_json::Value| {
            ev.violation(sig, json!({"case": desc, "ops": prog.tags(), "inputs": crate::util::hxs(&inputs.scalars), "extra": extra}));
        };
        // capacity one step too small must be an error, not a panic
        if s_min >= 16 {
            let small = crate::util::pp(s_min / 2);
            match common::compile(&small, &label, &prog) {
                Err(Fail::Err(_)) => ev.bucket("too_small_capacity_err"),
                Err(Fail::Panic(p)) => fail(&format!("C01:compile-panics-on-small-srs:{}", panic_site(&p)), json!({"panic": p})),
                Ok(_) => fail("C01:compile-accepts-too-small-srs", json!({"degree": s_min / 2})),
            }
        }
        // capacities just below the minimal admitting one: whatever compiles
        // must also prove and verify (the statement's premise is "compiles
        // against the supplied parameters")
        if s_min >= 16 {
            let short_by = 1 + (ci as usize + seed as usize) % 7;
            let near = crate::util::pp(s_min - short_by);
            match common::compile(&near, &label, &prog) {
                Err(Fail::Err(_)) => ev.bucket("just_too_small_capacity_err"),
                Err(Fail::Panic(p)) => fail(&format!("C01:compile-panics-on-small-srs:{}", panic_site(&p)), json!({"panic": p, "short_by": short_by})),
                Ok(c) => {
                    ev.bucket("just_too_small_capacity_compiles");
                    let mut prng = case_rng(seed ^ 0xdef, "C01.near", ci);
                    match common::prove(&c.prover, &prog, &inputs, &[], &mut prng, PlonkVersion::V3).result {
                        Ok((proof, pi)) => {
                            if let Err(f) = common::verify(&c.verifier, &proof, &pi, PlonkVersion::V3) {
                                fail(&format!("C01:honest-proof-rejected:capacity-short-by-{short_by}:{}", short(&f)), json!({"error": f.text()}));
                            }
                        }
                        Err(f) => fail(&format!("C01:compiled-at-a-capacity-it-cannot-prove-with:{}", short(&f)), json!({"short_by": short_by, "degree": s_min - short_by, "error": f.text()})),
                    }
                }
            }
        }
        let pp = crate::util::pp(deg);
        // route A
        let a = match common::compile(&pp, &label, &prog) {
            Ok(c) => c,
            Err(f) => {
                fail(&format!("C01:compile-failed:{}", short(&f)), json!({"error": f.text()}));
                ev.case(&desc, false);
                return;
            }
        };
        // R-SAT: is the honest instance satisfied (generator contract)?
        let inst = match common::build_instance(&prog, &inputs, &[]) {
            Ok((s, _)) => s,
            Err(f) => {
                ev.inconclusive(&format!("generator produced an instance that does not build: {}", f.text()));
                return;
            }
        };
        let rep = sat::check(&a.layout, &inst);
        if !rep.satisfied() {
            ev.inconclusive(&format!("generator produced an unsatisfied instance (rows {rows}): {:?}", rep.violated.first()));
            return;
        }
        // route B
        let compressed = match common::compress(&prog) {
            Ok(b) => b,
            Err(f) => {
                fail(&format!("C01:compress-failed:{}", short(&f)), json!({"error": f.text()}));
                return;
            }
        };
        let bpair = match guard(|| Compiler::compile_with_compressed(&pp, &label, &compressed)) {
            Ok(Ok(x)) => x,
            Ok(Err(e)) => {
                fail("C01:compile_with_compressed-failed", json!({"error": format!("{e:?}")}));
                return;
            }
            Err(p) => {
                fail(&format!("C01:compile_with_compressed-panicked:{}", panic_site(&p)), json!({"panic": p}));
                return;
            }
        };
        // route C
        let pbytes = a.prover.to_bytes();
        let vbytes = a.verifier.to_bytes();
        let cpair = match guard(|| (Prover::try_from_bytes(&pbytes), Verifier::try_from_bytes(&vbytes))) {
            Ok((Ok(p), Ok(v))) => (p, v),
            Ok((p, v)) => {
                fail("C01:own-bytes-rejected", json!({"prover": p.err().map(|e| format!("{e:?}")), "verifier": v.err().map(|e| format!("{e:?}"))}));
                return;
            }
            Err(p) => {
                fail(&format!("C01:decode-panicked:{}", panic_site(&p)), json!({"panic": p}));
                return;
            }
        };
        if bpair.0.to_bytes() != pbytes || bpair.1.to_bytes() != vbytes {
            fail("C01:compressed-route-keys-differ", json!({}));
        }
        if cpair.0.to_bytes() != pbytes || cpair.1.to_bytes() != vbytes {
            fail("C01:decoded-keys-reencode-differently", json!({}));
        }
        let provers: [(&str, &Prover); 3] = [("direct", &a.prover), ("compressed", &bpair.0), ("bytes", &cpair.0)];
        let verifiers: [(&str, &Verifier); 3] = [("direct", &a.verifier), ("compressed", &bpair.1), ("bytes", &cpair.1)];
        let want_pi: Vec<BlsScalar> = inst.public_inputs.iter().map(|(_, v)| *v).collect();
        let mut reached = false;
        for (pi_idx, (pn, prover)) in provers.into_iter().enumerate() {
            let mut prng = case_rng(seed ^ 0xabc, "C01.prove", ci * 8 + pn.len() as u64);
            // each route proves on a rayon pool of another size (the prover's
            // chunking depends on the number of worker threads)
            let pool = crate::util::POOL_SIZES[(ci as usize * 3 + pi_idx + seed as usize) % crate::util::POOL_SIZES.len()];
            ev.set_insert("prover_pools", pool);
            if rows.is_power_of_two() && !pool.is_power_of_two() {
                ev.bucket("full_domain_on_pool_not_dividing_it");
            }
            let proved = crate::util::in_pool(pool, ci, || common::prove(prover, &prog, &inputs, &[], &mut prng, PlonkVersion::V3));
            match proved.result {
                Ok((proof, pi)) => {
                    if pi != want_pi {
                        fail(&format!("C01:returned-public-inputs-differ:{pn}"), json!({}));
                    }
                    for (vn, verifier) in verifiers {
                        match common::verify(verifier, &proof, &pi, PlonkVersion::V3) {
                            Ok(()) => {
                                reached = true;
                                ev.bucket("verified");
                            }
                            Err(f) => fail(&format!("C01:honest-proof-rejected:{pn}->{vn}:{}", short(&f)), json!({"error": f.text()})),
                        }
                    }
                    let r = rv::decide(&vbytes, &proof.to_bytes(), &pi, rv::Version::V3);
                    if !r.accepts() {
                        fail(&format!("C01:reference-verifier-rejects-honest-proof:{pn}"), json!({"reference": format!("{r:?}")}));
                    } else {
                        ev.bucket("reference_accepts");
                    }
                }
                Err(f) => fail(&format!("C01:satisfied-instance-not-proved:{pn}:{}", short(&f)), json!({"error": f.text()})),
            }
        }
        // One prover, several proofs: the program's free witnesses (blank rows)
        // give other satisfying instances of the same circuit. The direct
        // prover, which has already proved once, proves a second instance and
        // then the first again; both must verify (state kept between proofs
        // must not leak from one witness into the next proof).
        if free_inputs > 0 && inputs.scalars.len() >= free_inputs {
            let mut other = inputs.clone();
            let n = other.scalars.len();
            for x in other.scalars[n - free_inputs..].iter_mut() {
                *x = crate::util::rand_scalar(&mut rng);
            }
            for (which, inp) in [("second-instance", &other), ("first-instance-again", &inputs)] {
                let mut prng = case_rng(seed ^ 0x5e, "C01.again", ci * 4 + which.len() as u64);
                match common::prove(&a.prover, &prog, inp, &[], &mut prng, PlonkVersion::V3).result {
                    Ok((proof, pi)) => {
                        ev.bucket("reused_prover_proofs");
                        if let Err(f) = common::verify(&a.verifier, &proof, &pi, PlonkVersion::V3) {
                            fail(&format!("C01:honest-proof-rejected:reused-prover:{which}:{}", short(&f)), json!({"error": f.text()}));
                        }
                        if !rv::decide(&vbytes, &proof.to_bytes(), &pi, rv::Version::V3).accepts() {
                            fail(&format!("C01:reference-verifier-rejects-honest-proof:reused-prover:{which}"), json!({}));
                        }
                    }
                    Err(f) => fail(&format!("C01:satisfied-instance-not-proved:reused-prover:{which}:{}", short(&f)), json!({"error": f.text()})),
                }
            }
        }
        ev.case(&desc, reached && rows > 4);
        if rows < 6 {
            // tiny domains are counted apart so that they do not feed the
            // offset floors
            ev.bucket(&format!("tiny_domain.rows{rows}"));
            return;
        }
        if free {
            ev.bucket("free_size_programs");
            ev.set_insert("free_sizes_log2", usize::BITS - rows.leading_zeros());
            for f in &families {
                ev.set_insert("families", f);
            }
            return;
        }
        ev.set_insert("offsets", off);
        ev.set_insert(&format!("k@offset{off}"), k);
        ev.set_insert("k", k);
        ev.set_insert("capacities", cap_name);
        ev.set_insert("pi_variants", variant);
        for f in &families {
            ev.set_insert("families", f);
        }
        if rows.is_power_of_two() && (variant == 2 || variant == 3) {
            ev.bucket("pi_on_last_row_of_full_domain");
        }
        let _ = Arc::strong_count(&prog);
    });

    // custom-gate block ending on the last row of a full domain is C05.C's
    // business for unsatisfied instances; here the satisfied ones: covered by
    // the offset-0 cases whose generator may end on any component.
    ev.floor("offsets", ev.set_len("offsets") as u64, 17);
    let ks_ok = (-8..=8).filter(|o| ev.set_len(&format!("k@offset{o}")) >= 5).count();
    ev.floor("offsets seen at >= 5 values of k", ks_ok as u64, 17);
    ev.floor("families", ev.set_len("families") as u64, 6);
    ev.floor("verifications", ev.bucket_get("verified"), tier.pick(600, 1200));
    ev.floor("PI on last row of a full domain", ev.bucket_get("pi_on_last_row_of_full_domain"), 1);
    ev.floor("capacities", ev.set_len("capacities") as u64, 3);
    ev.floor("capacities 1..7 below the minimal admitting one tried", ev.bucket_get("just_too_small_capacity_err") + ev.bucket_get("just_too_small_capacity_compiles"), 60);
    ev.floor("rayon pool sizes used for proving", ev.set_len("prover_pools") as u64, 12);
    ev.floor("full domains proved on a pool size that does not divide them", ev.bucket_get("full_domain_on_pool_not_dividing_it"), 6);
    ev.floor("further proofs by a prover that had already proved another instance", ev.bucket_get("reused_prover_proofs"), 16);
    ev.floor("circuits whose wire polynomials have vanishing top coefficients", ev.bucket_get("low_degree_wire_columns"), 8);
    ev.floor("full domains holding arithmetic rows only (constant q_arith)", ev.bucket_get("all_arithmetic_full_domain"), 2);
    ev.floor("random programs of arbitrary size", ev.bucket_get("free_size_programs"), tier.pick(30, 500));
    ev.floor("gate-free circuits (domain of 4 rows)", ev.bucket_get("tiny_domain.rows4"), 3);
    ev.floor("single-row circuits", ev.bucket_get("tiny_domain.rows5"), 3);
    ev.finish()
}
