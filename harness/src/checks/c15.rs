//! C15 — compressed circuit descriptions compile to the identical keys;
//! decompression is bounded by the parameters' capacity.

use std::sync::Arc;

use dusk_bls12_381::BlsScalar;
use dusk_bytes::Serializable;
use dusk_plonk::prelude::{Compiler, Prover, PublicParameters, Verifier};
use dusk_plonk::verif as dv;
use rand_core::RngCore;
use serde_json::json;

use super::common::{self, Fail};
use crate::gen::build::{self, Builder, GenCfg};
use crate::gen::cc::{self, CC};
use crate::gen::program::{Op, Pi, Program};
use crate::mon::alloc;
use crate::mon::evidence::{Ev, Tier};
use crate::mon::panic::{guard, panic_site};
use crate::mon::rng::case_rng;
use crate::util::{par_cases, pool_scalar, rand_scalar, threads};

fn dictionary_program(rng: &mut impl RngCore, style: u64, rows: usize) -> Builder {
    let mut b = Builder::new();
    let table: Vec<BlsScalar> = {
        let mut t = cc::hades_constants();
        t.extend(cc::hades_mds());
        t
    };
    // unused witnesses before any gate
    if style % 2 == 0 {
        for _ in 0..(1 + rng.next_u32() % 5) {
            b.witness(pool_scalar(rng));
        }
    }
    let mut guard = 0;
    while b.rows() + 1 < rows && guard < 100_000 {
        guard += 1;
        let w = [rng.next_u32() as usize % b.nregs(), rng.next_u32() as usize % b.nregs(), rng.next_u32() as usize % b.nregs(), rng.next_u32() as usize % b.nregs()];
        let mut s: [BlsScalar; 6] = match style % 5 {
            0 => {
                // one repeated tuple
                [BlsScalar::one(), BlsScalar::from(2u64), BlsScalar::zero(), -BlsScalar::one(), BlsScalar::zero(), BlsScalar::zero()]
            }
            1 => [rand_scalar(rng), rand_scalar(rng), rand_scalar(rng), rand_scalar(rng), rand_scalar(rng), BlsScalar::zero()],
            2 => {
                // entries of the built-in constant table
                let mut t = [BlsScalar::zero(); 6];
                for x in t.iter_mut().take(5) {
                    *x = table[rng.next_u32() as usize % table.len()];
                }
                t
            }
            3 => {
                let pick = |rng: &mut dyn RngCore| [BlsScalar::zero(), BlsScalar::one(), -BlsScalar::one()][rng.next_u32() as usize % 3];
                [pick(rng), pick(rng), pick(rng), pick(rng), pick(rng), BlsScalar::zero()]
            }
            _ => [build::sel_pool(rng), build::sel_pool(rng), build::sel_pool(rng), build::sel_pool(rng), build::sel_pool(rng), BlsScalar::zero()],
        };
        let pi = match rng.next_u32() % 8 {
            0 => Pi::Const(BlsScalar::zero()),
            1 => Pi::Const(pool_scalar(rng)),
            _ => Pi::None,
        };
        let piv = match &pi {
            Pi::Const(v) => *v,
            _ => BlsScalar::zero(),
        };
        build::solve_qc(&mut s, b.val(w[0]), b.val(w[1]), b.val(w[2]), b.val(w[3]), piv);
        b.push(Op::Gate { s, pi, w }).unwrap();
        if rng.next_u32() % 6 == 0 {
            // unused witness between used ones
            b.witness(pool_scalar(rng));
        }
        if rng.next_u32() % 5 == 0 && b.rows() + 3 < rows {
            b.witness(rand_scalar(rng));
        }
    }
    // last row: PI (zero-valued in some styles)
    while b.rows() < rows {
        let r = rng.next_u32() as usize % b.nregs();
        let piv = if style % 3 == 0 { BlsScalar::zero() } else { pool_scalar(rng) };
        let k = b.val(r) - piv;
        b.push(Op::AssertEqConst(r, k, Pi::Const(piv))).unwrap();
    }
    // unused witnesses after the last gate
    for _ in 0..(rng.next_u32() % 3) {
        b.witness(pool_scalar(rng));
    }
    b
}

fn classify<T>(r: &Result<T, Fail>) -> String {
    match r {
        Ok(_) => "Ok".into(),
        Err(Fail::Err(e)) => format!("Err({})", format!("{e:?}").split(['(', '{', ' ']).next().unwrap_or("")),
        Err(Fail::Panic(p)) => format!("PANIC@{}", panic_site(p)),
    }
}

fn compile_compressed(pp: &PublicParameters, label: &[u8], bytes: &[u8]) -> Result<(Prover, Verifier), Fail> {
    match guard(|| Compiler::compile_with_compressed(pp, label, bytes)) {
        Ok(Ok(x)) => Ok(x),
        Ok(Err(e)) => Err(Fail::Err(e)),
        Err(p) => Err(Fail::Panic(p)),
    }
}

pub fn run(tier: Tier, seed: u64) -> i32 {
    let ev = Ev::new("C15", tier, seed);
    ev.set_rule(
        "A: cases = (program stressing the dictionaries, label, SRS capacity from too small to ample); both \
         compilation routes must fail together or give byte-identical prover and verifier. B: cases = edited / \
         hostile descriptions (mirror codec of the MessagePack+deflate layout) decoded at a given capacity: Err \
         or a composer that compiles, with the decoder's thread-local peak allocation below 4x the peak of the \
         largest valid description at that capacity + 1 MiB; non-trivial = program has >= 1 user row / the \
         hostile input differs from a valid one; distinct = fingerprint of the case descriptor",
    );
    ev.assume("allocation is measured on the decoding thread only (the decoder is single-threaded)");

    // ---------------- A. equivalence ----------------------------------------
    let n_a = tier.pick(60u64, 800u64);
    par_cases(n_a, threads(), |ci| {
        let mut rng = case_rng(seed, "C15.A", ci);
        let rows = [5usize, 6, 9, 10, 11, 26, 27, 58, 59, 100, 122, 250, 251, 500][(ci as usize) % 14];
        let b = if ci % 3 == 2 {
            let mut cfg = GenCfg::all();
            cfg.heavy = rows >= 450;
            build::random_program(&mut rng, &cfg, rows)
        } else {
            dictionary_program(&mut rng, ci / 3, rows)
        };
        let (prog, _inputs) = b.finish();
        let label: Vec<u8> = (0..(rng.next_u32() % 20)).map(|_| rng.next_u32() as u8).collect();
        let compressed = match common::compress(&prog) {
            Ok(c) => c,
            Err(f) => {
                ev.violation(&format!("C15:compress-failed:{}", classify::<()>(&Err(f))), json!({"ops": prog.tags()}));
                return;
            }
        };
        let s = common::min_degree(rows);
        let caps: Vec<(&str, usize)> = vec![("half", (s / 2).max(1)), ("one-short", s - 1), ("minimal", s), ("minimal+1", s + 1), ("one-and-a-half", s + s / 2), ("double", 2 * s)];
        for (cname, deg) in caps {
            let pp = crate::util::pp(deg);
            let direct = common::compile(&pp, &label, &prog).map(|c| (c.prover, c.verifier));
            let viac = compile_compressed(&pp, &label, &compressed);
            let desc = json!({"part": "equivalence", "rows": rows, "style": if ci % 3 == 2 { "random".to_string() } else { format!("dictionary-{}", (ci / 3) % 5) },
                "capacity": cname, "degree": deg, "direct": classify(&direct), "compressed": classify(&viac)});
            ev.case(&desc, rows > 4);
            ev.set_insert("capacities", cname);
            match (&direct, &viac) {
                (Ok((p1, v1)), Ok((p2, v2))) => {
                    ev.bucket("both_ok");
                    if p1.to_bytes() != p2.to_bytes() {
                        ev.violation("C15:prover-bytes-differ", json!({"case": desc, "ops": prog.tags()}));
                    }
                    if v1.to_bytes() != v2.to_bytes() {
                        ev.violation("C15:verifier-bytes-differ", json!({"case": desc, "ops": prog.tags()}));
                    }
                }
                (Err(Fail::Err(_)), Err(Fail::Err(_))) => ev.bucket("both_err"),
                (Err(Fail::Panic(p)), _) | (_, Err(Fail::Panic(p))) => {
                    ev.violation(&format!("C15:panic:{}", panic_site(p)), json!({"case": desc, "ops": prog.tags(), "panic": p}))
                }
                _ => ev.violation(&format!("C15:routes-disagree-on-capacity:{cname}"), json!({"case": desc, "ops": prog.tags()})),
            }
        }
        // metamorphic: sparse / permuted witness labels give the same keys
        if let Some(cc0) = CC::from_compressed(&compressed) {
            let pp = crate::util::pp(s);
            let base = common::compile(&pp, &label, &prog).map(|c| (c.prover.to_bytes(), c.verifier.to_bytes()));
            let mut variants: Vec<(&str, CC)> = Vec::new();
            let mut v = cc0.clone();
            v.witnesses = 1 << 40;
            variants.push(("huge-witness-count", v));
            let mut v = cc0.clone();
            for c in v.constraints.iter_mut() {
                for x in c[1..].iter_mut() {
                    *x = *x * 1000 + 7;
                }
            }
            v.witnesses = v.witnesses * 1000 + 8;
            variants.push(("sparse-witness-labels", v));
            let mut v = cc0.clone();
            let w = v.witnesses;
            for c in v.constraints.iter_mut() {
                for x in c[1..].iter_mut() {
                    *x = w - 1 - *x;
                }
            }
            variants.push(("reversed-witness-labels", v));
            // the same constraint system against the other built-in scalar
            // table (flag cleared: every constant spelled out), and back
            if let Some(v) = cc0.with_flag(!cc0.hades) {
                if let Some(back) = v.with_flag(cc0.hades) {
                    variants.push(("built-in-table-flag-flipped-twice", back));
                }
                variants.push(("built-in-table-flag-flipped", v));
            }
            for (name, v) in variants {
                let r = compile_compressed(&pp, &label, &v.to_compressed());
                ev.case(&json!({"part": "relabelled", "variant": name, "ci": ci, "result": classify(&r)}), true);
                match (&base, &r) {
                    (Ok((pb, vb)), Ok((p2, v2))) => {
                        ev.bucket("accepted_edited_description");
                        if *pb != p2.to_bytes() || *vb != v2.to_bytes() {
                            ev.violation(&format!("C15:relabelled-description-compiles-differently:{name}"), json!({"ci": ci, "ops": prog.tags()}));
                        }
                    }
                    (_, Err(Fail::Panic(p))) => ev.violation(&format!("C15:panic:{}", panic_site(p)), json!({"variant": name, "panic": p})),
                    (Ok(_), Err(Fail::Err(e))) => ev.violation(&format!("C15:equivalent-description-rejected:{name}"), json!({"error": format!("{e:?}")})),
                    _ => {}
                }
            }
        } else {
            ev.violation("C15:mirror-codec-cannot-read-valid-description", json!({"ci": ci}));
        }
    });

    // ---------------- A2. collection sizes at the encoding's boundaries -----
    // The packed description stores four collections (public inputs, scalar
    // dictionary, selector-tuple dictionary, constraints) behind MessagePack
    // length markers whose form changes at 15/16, and integers whose form
    // changes at 127/128, 255/256 (and 65535/65536). A program is grown one
    // row at a time; whenever the mirror codec reads a boundary count for any
    // collection, both compilation routes are compared on that very program.
    let boundary = |n: usize| matches!(n, 0 | 1 | 14 | 15 | 16 | 17 | 31 | 32 | 33 | 127 | 128 | 129 | 255 | 256 | 257);
    let styles = tier.pick(3u64, 12u64);
    par_cases(styles, threads(), |si| {
        let mut rng = case_rng(seed, "C15.A2", si);
        let mut b = Builder::new();
        let max_rows = tier.pick(300usize, 600usize);
        let mut seen: std::collections::BTreeSet<(u8, usize)> = Default::default();
        let mut cur_scalars = 0usize;
        while b.rows() < max_rows {
            let r = rng.next_u32() as usize % b.nregs();
            match si % 3 {
                0 => {
                    // one more public input, one repeated selector tuple
                    let piv = if rng.next_u32() % 3 == 0 { BlsScalar::zero() } else { BlsScalar::from(7u64) };
                    let one = BlsScalar::one();
                    b.push(Op::AssertEqConst(1, one - piv, Pi::Const(piv))).unwrap();
                }
                1 => {
                    // one more distinct selector tuple (and one or two fresh scalars:
                    // on the ZERO register the solved q_c is 0, already in the dictionary)
                    // (never step over a boundary size of the scalar collection)
                    let r = if boundary(cur_scalars + 1) || rng.next_u32() % 2 == 0 { 0 } else { r };
                    let mut sel: [BlsScalar; 6] = [BlsScalar::zero(), rand_scalar(&mut rng), BlsScalar::zero(), BlsScalar::zero(), BlsScalar::zero(), BlsScalar::zero()];
                    build::solve_qc(&mut sel, b.val(r), b.val(r), b.val(r), b.val(r), BlsScalar::zero());
                    b.push(Op::Gate { s: sel, pi: Pi::None, w: [r, r, r, r] }).unwrap();
                }
                _ => {
                    // repeated tuple over fresh witnesses, a public input now and then
                    let x = b.witness(pool_scalar(&mut rng));
                    let pi = if rng.next_u32() % 2 == 0 { Pi::Const(BlsScalar::zero()) } else { Pi::None };
                    let mut sel: [BlsScalar; 6] = [BlsScalar::zero(), BlsScalar::one(), BlsScalar::zero(), BlsScalar::zero(), BlsScalar::zero(), BlsScalar::zero()];
                    build::solve_qc(&mut sel, b.val(x), b.val(x), b.val(x), b.val(x), BlsScalar::zero());
                    // keep the tuple repeated: q_c differs per row, so use the witness itself on both sides instead
                    let _ = sel;
                    b.push(Op::Gate { s: [BlsScalar::zero(), BlsScalar::one(), -BlsScalar::one(), BlsScalar::zero(), BlsScalar::zero(), BlsScalar::zero()], pi, w: [x, x, 0, 0] }).unwrap();
                }
            }
            let prog = Arc::new(b.prog.clone());
            let Ok(compressed) = common::compress(&prog) else {
                ev.violation("C15:compress-failed:growth", json!({"rows": b.rows(), "style": si % 3}));
                return;
            };
            let Some(cc0) = CC::from_compressed(&compressed) else {
                ev.violation("C15:mirror-codec-cannot-read-valid-description", json!({"rows": b.rows(), "growth_style": si % 3}));
                return;
            };
            let counts = [cc0.public_inputs.len(), cc0.scalars.len(), cc0.polynomials.len(), cc0.constraints.len()];
            cur_scalars = counts[1];
            let names = ["public_inputs", "scalars", "polynomials", "constraints"];
            let mut hit = Vec::new();
            for (k, n) in counts.iter().enumerate() {
                if boundary(*n) && seen.insert((k as u8, *n)) {
                    hit.push(format!("{}={}", names[k], n));
                    ev.set_insert(&format!("boundary_counts.{}", names[k]), *n);
                }
            }
            if hit.is_empty() {
                continue;
            }
            let rows = b.rows();
            let pp = crate::util::pp(common::min_degree(rows));
            let direct = common::compile(&pp, b"c15-growth", &prog).map(|c| (c.prover, c.verifier));
            let viac = compile_compressed(&pp, b"c15-growth", &compressed);
            let desc = json!({"part": "collection-size-boundary", "rows": rows, "growth_style": si % 3, "hit": hit, "counts": counts,
                "direct": classify(&direct), "compressed": classify(&viac)});
            ev.case(&desc, true);
            ev.bucket("boundary_cases");
            match (&direct, &viac) {
                (Ok((p1, v1)), Ok((p2, v2))) => {
                    if p1.to_bytes() != p2.to_bytes() || v1.to_bytes() != v2.to_bytes() {
                        ev.violation("C15:keys-differ-at-collection-size-boundary", json!({"case": desc}));
                    }
                }
                (Err(Fail::Panic(p)), _) | (_, Err(Fail::Panic(p))) => ev.violation(&format!("C15:panic:{}", panic_site(p)), json!({"case": desc, "panic": p})),
                (Ok(_), Err(_)) => ev.violation(&format!("C15:valid-description-rejected-at-collection-size:{}", hit[0].split('=').next().unwrap_or("")), json!({"case": desc})),
                _ => ev.violation("C15:routes-disagree-at-collection-size-boundary", json!({"case": desc})),
            }
        }
    });

    // ---------------- B. hostile descriptions ------------------------------
    hostile(&ev, tier, seed);

    super::c18::sanitizer_summary(&ev, "C15");
    ev.floor("both routes Ok", ev.bucket_get("both_ok"), tier.pick(150, 2000));
    ev.floor("both routes Err", ev.bucket_get("both_err"), tier.pick(60, 800));
    ev.floor("capacities", ev.set_len("capacities") as u64, 6);
    for name in ["public_inputs", "scalars", "polynomials", "constraints"] {
        ev.floor(&format!("boundary sizes reached for the {name} collection"), ev.set_len(&format!("boundary_counts.{name}")) as u64, 12);
    }
    ev.floor("accepted edited descriptions", ev.bucket_get("accepted_edited_description"), 10);
    ev.floor("hostile classes", ev.set_len("hostile_classes") as u64, 20);
    ev.floor("hostile rejected", ev.bucket_get("hostile.err"), tier.pick(100, 200));
    ev.finish()
}

/// A dense valid description with exactly `rows` rows (all selector tuples
/// distinct) — the most expensive valid input at a capacity.
fn dense_description(rng: &mut impl RngCore, rows: usize) -> (Arc<Program>, Vec<u8>) {
    let b = dictionary_program(rng, 1, rows);
    let (prog, _) = b.finish();
    let bytes = common::compress(&prog).ok().expect("compress");
    (prog, bytes)
}

fn decode_measured(bytes: &[u8], max_constraints: usize) -> (Result<usize, Fail>, alloc::Region) {
    let (r, region) = alloc::measure(|| guard(|| dv::composer_from_bytes(bytes, max_constraints).map(|c| c.constraints())));
    let r = match r {
        Ok(Ok(n)) => Ok(n),
        Ok(Err(e)) => Err(Fail::Err(e)),
        Err(p) => Err(Fail::Panic(p)),
    };
    (r, region)
}

fn hostile(ev: &Ev, tier: Tier, seed: u64) {
    let degrees: Vec<usize> = tier.pick(vec![16, 32, 64, 128, 256], vec![16, 32, 64, 128, 256, 512, 1024, 4096]);
    par_cases(degrees.len() as u64, threads().min(degrees.len()), |di| {
        let deg = degrees[di as usize];
        let mut rng = case_rng(seed, "C15.B", di);
        let pp = crate::util::pp(deg);
        let m = cc::max_constraints(pp.max_degree());
        // calibrate on the largest valid description
        let (_prog, full) = dense_description(&mut rng, m);
        let (r, cal) = decode_measured(&full, m);
        if r.is_err() {
            ev.violation("C15:largest-valid-description-rejected", json!({"degree": deg, "max_constraints": m, "result": classify(&r)}));
            return;
        }
        let bound = 4 * cal.peak + (1 << 20);
        ev.extra(&format!("calibration@{deg}"), json!({"max_constraints": m, "valid_peak_bytes": cal.peak, "bound_bytes": bound, "valid_compressed_len": full.len()}));
        // one row too many
        let (_p2, over) = dense_description(&mut rng, m + 1);
        let base = CC::from_compressed(&full).expect("mirror decodes");
        let mut hostile: Vec<(String, Vec<u8>)> = Vec::new();
        hostile.push(("max_constraints+1-rows".into(), over));
        // structural edits through the mirror
        let mut e = |name: &str, f: &dyn Fn(&mut CC, &mut dyn RngCore)| {
            let mut c = base.clone();
            let mut r2 = case_rng(seed, "C15.B.e", di * 1000 + name.len() as u64);
            f(&mut c, &mut r2);
            hostile.push((name.to_string(), c.to_compressed()));
        };
        e("pi-index-out-of-range", &|c, _| c.public_inputs.push(c.constraints.len() as u64));
        e("pi-unsorted", &|c, _| {
            if c.public_inputs.len() >= 2 {
                c.public_inputs.swap(0, 1)
            } else {
                c.public_inputs = vec![1, 0]
            }
        });
        e("pi-duplicated", &|c, _| {
            let x = c.public_inputs.first().copied().unwrap_or(0);
            c.public_inputs.insert(0, x)
        });
        e("pi-count-beyond-capacity", &|c, _| c.public_inputs = (0..(c.constraints.len() as u64 + 50)).collect());
        e("witness-index-out-of-range", &|c, r| {
            let i = r.next_u32() as usize % c.constraints.len();
            c.constraints[i][1] = c.witnesses
        });
        e("witness-index-u64-max", &|c, r| {
            let i = r.next_u32() as usize % c.constraints.len();
            c.constraints[i][4] = u64::MAX
        });
        e("polynomial-index-out-of-range", &|c, r| {
            let i = r.next_u32() as usize % c.constraints.len();
            c.constraints[i][0] = c.polynomials.len() as u64
        });
        e("scalar-index-out-of-range", &|c, r| {
            let i = r.next_u32() as usize % c.polynomials.len();
            c.polynomials[i][r.next_u32() as usize % 11] = 3 + 360 + c.scalars.len() as u64
        });
        e("scalar-not-canonical", &|c, r| {
            if c.scalars.is_empty() {
                c.scalars.push([0xff; 32]);
            } else {
                let i = r.next_u32() as usize % c.scalars.len();
                c.scalars[i] = [0xff; 32]
            }
        });
        // value classes of non-canonical scalars: a referenced entry spelled as
        // value + r (fits 255 bits: bit 255 clear), r itself (alias of zero),
        // 2^255 - 1; and the same as an extra entry no polynomial refers to
        let plus_r = |b: &[u8; 32]| -> [u8; 32] {
            // little-endian addition of the field modulus
            const R: [u64; 4] = [0xffff_ffff_0000_0001, 0x53bd_a402_fffe_5bfe, 0x3339_d808_09a1_d805, 0x73ed_a753_299d_7d48];
            let mut out = [0u8; 32];
            let mut carry = 0u128;
            for i in 0..4 {
                let x = u64::from_le_bytes(b[8 * i..8 * i + 8].try_into().unwrap()) as u128 + R[i] as u128 + carry;
                out[8 * i..8 * i + 8].copy_from_slice(&(x as u64).to_le_bytes());
                carry = x >> 64;
            }
            out
        };
        let r_bytes = plus_r(&[0u8; 32]);
        let mut near = [0xffu8; 32];
        near[31] = 0x7f;
        e("scalar-referenced-spelled-value+r", &|c, r| {
            if c.scalars.is_empty() {
                c.scalars.push(r_bytes);
            } else {
                // pick an entry small enough for value + r to stay below 2^256
                let i = r.next_u32() as usize % c.scalars.len();
                let mut v = c.scalars[i];
                v[31] &= 0x07;
                c.scalars[i] = plus_r(&v);
            }
        });
        e("scalar-referenced-spelled-r", &|c, r| {
            if c.scalars.is_empty() {
                c.scalars.push(r_bytes);
            } else {
                let i = r.next_u32() as usize % c.scalars.len();
                c.scalars[i] = r_bytes;
            }
        });
        e("scalar-referenced-2^255-1", &|c, r| {
            if c.scalars.is_empty() {
                c.scalars.push(near);
            } else {
                let i = r.next_u32() as usize % c.scalars.len();
                c.scalars[i] = near;
            }
        });
        e("scalar-unreferenced-extra-entry-all-ff", &|c, _| c.scalars.push([0xff; 32]));
        e("scalar-unreferenced-extra-entry-r", &|c, _| c.scalars.push(r_bytes));
        e("scalar-unreferenced-extra-entry-small+r", &|c, _| {
            let mut v = [0u8; 32];
            v[0] = 5;
            c.scalars.push(plus_r(&v))
        });
        e("witnesses-zero", &|c, _| c.witnesses = 0);
        e("hades-flag-flipped", &|c, _| c.hades = !c.hades);
        e("extra-polynomials-beyond-capacity", &|c, _| {
            let p = c.polynomials[0];
            while c.polynomials.len() <= c.constraints.len() + 8 {
                c.polynomials.push(p)
            }
        });
        e("extra-scalars-beyond-capacity", &|c, _| {
            while c.scalars.len() <= 11 * c.constraints.len() + 8 {
                c.scalars.push([1; 32])
            }
        });
        // raw packed-level edits
        let packed = base.pack();
        let mut raw = |name: &str, p: Vec<u8>| hostile.push((name.to_string(), cc::deflate(&p)));
        {
            let mut p = packed.clone();
            p.extend_from_slice(&[0u8; 3]);
            raw("trailing-bytes-inside-stream", p);
            let mut p = packed.clone();
            p.truncate(packed.len() - 1);
            raw("packed-truncated-by-1", p);
            let mut p = packed.clone();
            p.truncate(packed.len() / 2);
            raw("packed-truncated-half", p);
            // constraints array header announcing 2^32-1 entries
            let mut c = base.clone();
            c.constraints.clear();
            let mut p = c.pack();
            p.pop(); // remove the empty-array header 0x90
            p.push(0xdd);
            p.extend_from_slice(&u32::MAX.to_be_bytes());
            raw("constraints-count-u32-max", p);
            let mut c = base.clone();
            c.constraints.clear();
            c.polynomials.clear();
            c.scalars.clear();
            c.public_inputs.clear();
            let mut p = vec![0xc3, 0xdd];
            p.extend_from_slice(&u32::MAX.to_be_bytes());
            raw("pi-count-u32-max", p);
            let mut p = vec![0xc3, 0x90];
            cc::put_uint(&mut p, 5);
            p.push(0xdd);
            p.extend_from_slice(&0x7fff_ffffu32.to_be_bytes());
            raw("scalar-count-huge", p);
            raw("empty-packed", Vec::new());
            raw("not-a-bool-first", vec![0x05, 0x90, 0x00, 0x90, 0x90, 0x90]);
        }
        // deflate-level hostility
        hostile.push(("truncated-stream".into(), full[..full.len() / 2].to_vec()));
        hostile.push(("empty-input".into(), Vec::new()));
        hostile.push(("garbage".into(), (0..200).map(|_| rng.next_u32() as u8).collect()));
        {
            let mut t = full.clone();
            t.extend_from_slice(b"trailing");
            hostile.push(("trailing-bytes-after-stream".into(), t));
        }
        let limit = m * 857 + 30;
        for (name, len) in [("bomb-limit+1", limit + 1), ("bomb-16MiB", 16 << 20), ("bomb-1GiB", 1 << 30)] {
            if len > (64 << 20) && tier == Tier::Quick && deg > 16 {
                continue;
            }
            hostile.push((name.into(), zero_bomb(len)));
        }
        for (name, bytes) in hostile {
            let (r, region) = decode_measured(&bytes, m);
            let class = name.trim_end_matches(char::is_numeric).to_string();
            ev.set_insert("hostile_classes", &class);
            let desc = json!({"part": "hostile", "degree": deg, "max_constraints": m, "class": name, "len": bytes.len(),
                "result": classify(&r), "peak": region.peak, "bound": bound});
            ev.case(&desc, true);
            match &r {
                Ok(n) => {
                    ev.bucket("hostile.accepted");
                    ev.set_insert("hostile_accepted_classes", &class);
                    if *n > m {
                        ev.violation("C15:description-beyond-capacity-accepted", json!({"case": desc}));
                    }
                    if name.starts_with("scalar-not-canonical") || name.starts_with("scalar-referenced-") || name.starts_with("scalar-unreferenced-extra-entry") {
                        // a non-canonical field element anywhere in the description is out-of-range data
                        ev.violation(&format!("C15:out-of-range-data-accepted:{class}"), json!({"case": desc}));
                    }
                    if name == "trailing-bytes-inside-stream" || name == "trailing-bytes-after-stream" {
                        ev.violation(&format!("C15:trailing-data-accepted:{name}"), json!({"case": desc}));
                    }
                    // accepted => must compile without panicking
                    match compile_compressed(&pp, b"c15-hostile", &bytes) {
                        Err(Fail::Panic(p)) => ev.violation(&format!("C15:accepted-description-panics-on-compile:{}", panic_site(&p)), json!({"case": desc, "panic": p})),
                        _ => {}
                    }
                }
                Err(Fail::Err(_)) => ev.bucket("hostile.err"),
                Err(Fail::Panic(p)) => ev.violation(&format!("C15:decoder-panicked:{}:{}", class, panic_site(p)), json!({"case": desc, "panic": p})),
            }
            if alloc::enabled() && region.peak > bound {
                ev.violation(&format!("C15:allocation-beyond-capacity-bound:{class}"), json!({"case": desc}));
            }
        }
    });
}

/// Raw deflate stream that inflates to `len` zero bytes (stored as a chain of
/// maximally compressed blocks produced by the real compressor on chunks).
fn zero_bomb(len: usize) -> Vec<u8> {
    // compress in one go for moderate sizes, otherwise build from a 16 MiB
    // chunk's stream is not concatenable; use the compressor directly (zeros
    // compress at ~1000:1, so even 1 GiB costs ~1 MiB of output and a few
    // seconds).
    let chunk = vec![0u8; len.min(64 << 20)];
    if len <= chunk.len() {
        return miniz_oxide::deflate::compress_to_vec(&chunk, 6);
    }
    // streaming compression with the low-level API
    use miniz_oxide::deflate::core::{compress, create_comp_flags_from_zip_params, CompressorOxide, TDEFLFlush, TDEFLStatus};
    let flags = create_comp_flags_from_zip_params(6, 0, 0);
    let mut comp = CompressorOxide::new(flags);
    let mut out = Vec::new();
    let mut buf = vec![0u8; 1 << 20];
    let mut remaining = len;
    while remaining > 0 {
        let take = remaining.min(chunk.len());
        let mut input = &chunk[..take];
        remaining -= take;
        let flush = if remaining == 0 { TDEFLFlush::Finish } else { TDEFLFlush::None };
        loop {
            let (status, consumed, produced) = compress(&mut comp, input, &mut buf, flush);
            out.extend_from_slice(&buf[..produced]);
            input = &input[consumed..];
            match status {
                TDEFLStatus::Done => break,
                TDEFLStatus::Okay => {
                    if input.is_empty() && flush == TDEFLFlush::None {
                        break;
                    }
                }
                _ => return out,
            }
        }
    }
    out
}
