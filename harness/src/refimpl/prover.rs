//! R-PRV: naive prover (n <= 256, used for n <= 64). From SRS powers, the
//! key polynomials parsed from `Prover::to_bytes()`, a wire table, public
//! inputs and 14 explicit blinders it produces the 1008-byte proof with
//! O(n^2) transforms, schoolbook products and exact division by X^n - 1
//! (through pointwise division on a coset of size 8n and naive
//! interpolation). Uses R-VER's transcript and identities.

use dusk_bls12_381::{BlsScalar, G1Affine, GENERATOR};
use dusk_bytes::Serializable;
use dusk_jubjub::EDWARDS_D;

use super::fft as rf;
use super::kzg::naive_commit;
use super::sat::Wires;
use super::verifier::{seeded_transcript, VKey, Version};

#[derive(Clone, Debug)]
pub struct Blinders {
    pub wires: [[BlsScalar; 2]; 4],
    pub perm: [BlsScalar; 3],
    pub quotient: [BlsScalar; 3],
}

pub struct KeyPolys {
    pub n: usize,
    /// q_m q_l q_r q_o q_f q_c q_arith q_logic q_range q_fixed q_var s1 s2 s3 s4
    pub polys: Vec<Vec<BlsScalar>>,
}

pub const P_QM: usize = 0;
pub const P_QL: usize = 1;
pub const P_QR: usize = 2;
pub const P_QO: usize = 3;
pub const P_QF: usize = 4;
pub const P_QC: usize = 5;
pub const P_QARITH: usize = 6;
pub const P_QLOGIC: usize = 7;
pub const P_QRANGE: usize = 8;
pub const P_QFIXED: usize = 9;
pub const P_QVAR: usize = 10;
pub const P_S1: usize = 11;
pub const P_S2: usize = 12;
pub const P_S3: usize = 13;
pub const P_S4: usize = 14;

impl KeyPolys {
    pub fn from_prover_bytes(b: &[u8]) -> Option<KeyPolys> {
        if b.len() < 48 {
            return None;
        }
        let label_len = u64::from_be_bytes(b[0..8].try_into().ok()?) as usize;
        let pk_len = u64::from_be_bytes(b[8..16].try_into().ok()?) as usize;
        let pk = b.get(48 + label_len..48 + label_len + pk_len)?;
        let n = u64::from_le_bytes(pk.get(0..8)?.try_into().ok()?) as usize;
        let eval_size = u64::from_le_bytes(pk.get(8..16)?.try_into().ok()?) as usize;
        let mut off = 16;
        let mut polys = Vec::new();
        for _ in 0..15 {
            let len = u64::from_le_bytes(pk.get(off..off + 8)?.try_into().ok()?) as usize;
            off += 8;
            let mut p = Vec::with_capacity(len);
            for k in 0..len {
                let mut a = [0u8; 32];
                a.copy_from_slice(pk.get(off + 32 * k..off + 32 * k + 32)?);
                p.push(Option::<BlsScalar>::from(BlsScalar::from_bytes(&a))?);
            }
            off += 32 * len + eval_size;
            polys.push(p);
        }
        Some(KeyPolys { n, polys })
    }
}

fn sc(v: u64) -> BlsScalar {
    BlsScalar::from(v)
}

fn quad(f: BlsScalar) -> BlsScalar {
    f * (f - sc(1)) * (f - sc(2)) * (f - sc(3))
}

/// p(X) + (b_0 + b_1 X + ...)(X^n - 1)
fn mask(p: &[BlsScalar], blinders: &[BlsScalar], n: usize) -> Vec<BlsScalar> {
    let mut c = p.to_vec();
    c.resize(n + blinders.len(), BlsScalar::zero());
    for (i, b) in blinders.iter().enumerate() {
        c[i] -= b;
        c[n + i] += b;
    }
    c
}

#[derive(Clone, Debug)]
pub struct Transcripted {
    pub beta: BlsScalar,
    pub gamma: BlsScalar,
    pub alpha: BlsScalar,
    pub seps: [BlsScalar; 4],
    pub z: BlsScalar,
    pub v: BlsScalar,
    pub v_w: BlsScalar,
}

/// gate identities at one point, with the separation challenges, given the
/// wire values at x and omega*x and the selector values at x
#[allow(clippy::too_many_arguments)]
pub fn gate_terms(
    q: &[BlsScalar; 11],
    w: [BlsScalar; 4],
    wn: [BlsScalar; 3], // a, b, d at omega*x
    seps: &[BlsScalar; 4],
) -> BlsScalar {
    let one = BlsScalar::one();
    let [a, b, c, d] = w;
    let [a_n, b_n, d_n] = wn;
    let (q_m, q_l, q_r, q_o, q_f, q_c, q_arith, q_logic, q_range, q_fixed, q_var) = (q[0], q[1], q[2], q[3], q[4], q[5], q[6], q[7], q[8], q[9], q[10]);
    let mut t = q_arith * (q_m * a * b + q_l * a + q_r * b + q_o * c + q_f * d + q_c);
    {
        let ch = seps[0];
        let k = ch * ch;
        t += q_range * ch * (quad(c - sc(4) * d) + k * quad(b - sc(4) * c) + k * k * quad(a - sc(4) * b) + k * k * k * quad(d_n - sc(4) * a));
    }
    {
        let ch = seps[1];
        let k = ch * ch;
        let qa = a_n - sc(4) * a;
        let qb = b_n - sc(4) * b;
        let qo = d_n - sc(4) * d;
        let f = c * (c * (sc(4) * c - sc(18) * (qa + qb) + sc(81)) + sc(18) * (qa * qa + qb * qb) - sc(81) * (qa + qb) + sc(83));
        let e = sc(3) * (qa + qb + qo) - sc(2) * f;
        let bb = q_c * (sc(9) * qo - sc(3) * (qa + qb));
        t += q_logic * ch * (quad(qa) + k * quad(qb) + k * k * quad(qo) + k * k * k * (c - qa * qb) + k * k * k * k * (bb + e));
    }
    {
        let ch = seps[2];
        let k = ch * ch;
        let bit = d_n - d - d;
        let y_alpha = bit * bit * (q_r - one) + one;
        let x_alpha = bit * q_l;
        let bitc = bit * (bit - one) * (bit + one);
        let xyc = bit * q_c - c;
        let xc = a_n + a_n * c * a * b * EDWARDS_D - (a * y_alpha + b * x_alpha);
        let yc = b_n - b_n * c * a * b * EDWARDS_D - (b * y_alpha + a * x_alpha);
        t += q_fixed * ch * (bitc + k * xyc + k * k * xc + k * k * k * yc);
    }
    {
        let ch = seps[3];
        let k = ch * ch;
        let y1x2 = b * c;
        let xy = a * d - d_n;
        let xc = d_n + y1x2 - (a_n + a_n * EDWARDS_D * d_n * y1x2);
        let yc = b * d + a * c - (b_n - b_n * EDWARDS_D * d_n * y1x2);
        t += q_var * ch * (xy + k * xc + k * k * yc);
    }
    t
}

/// selector order of `gate_terms`: q_m q_l q_r q_o q_f q_c q_arith q_logic q_range q_fixed q_var
fn selectors_at(key: &KeyPolys, x: &BlsScalar) -> [BlsScalar; 11] {
    core::array::from_fn(|i| rf::horner(&key.polys[i], x))
}

pub struct Built {
    pub proof: Vec<u8>,
    pub tr: Transcripted,
    pub quotient_remainder_free: bool,
    /// Some(true) when the requested evaluation was solved and the scalar equation balances
    pub solved: Option<bool>,
}

/// Produce a proof. `drop_remainder`: keep the low 4n+6.. coefficients even
/// if the assignment is not satisfying (forger mode).
#[allow(clippy::too_many_arguments)]
pub fn prove_full(
    key: &KeyPolys,
    powers: &[G1Affine],
    vk: &VKey,
    wires: &Wires,
    pi: &[BlsScalar],
    bl: &Blinders,
    version: Version,
    drop_remainder: bool,
    forge_eval: Option<usize>,
    zero_wire: Option<usize>,
) -> Option<Built> {
    let n = key.n;
    if wires.n != n || powers.len() < n + 6 {
        return None;
    }
    let omega = rf::root_of_unity(n);
    let cols: [Vec<BlsScalar>; 4] = core::array::from_fn(|k| wires.w.iter().map(|w| w[k]).collect());
    let mut wp: [Vec<BlsScalar>; 4] = core::array::from_fn(|k| mask(&rf::idft(&cols[k], n), &bl.wires[k], n));
    if let Some(k) = zero_wire {
        // forger: commit to the zero polynomial for this wire (identity commitment)
        wp[k] = Vec::new();
    }
    let comm = |p: &[BlsScalar]| naive_commit(powers, &rf::trim(p.to_vec()));
    let wc: [G1Affine; 4] = core::array::from_fn(|k| comm(&wp[k]));
    let mut t = seeded_transcript(vk, pi, version);
    t.point(b"a_comm", &wc[0]);
    t.point(b"b_comm", &wc[1]);
    t.point(b"c_comm", &wc[2]);
    t.point(b"d_comm", &wc[3]);
    let beta = t.challenge(b"beta");
    t.scalar(b"beta", &beta);
    let gamma = t.challenge(b"gamma");
    // permutation polynomial from the key's sigma polynomials on the domain
    let mut sigma: [Vec<BlsScalar>; 4] = Default::default();
    {
        let mut x = BlsScalar::one();
        for _ in 0..n {
            for k in 0..4 {
                sigma[k].push(rf::horner(&key.polys[P_S1 + k], &x));
            }
            x *= omega;
        }
    }
    let zvals = super::perm::grand_product(&wires.w, &sigma, &beta, &gamma);
    let zp = mask(&rf::idft(&zvals, n), &bl.perm, n);
    let zc = comm(&zp);
    t.point(b"z_comm", &zc);
    let alpha = t.challenge(b"alpha");
    let seps = [
        t.challenge(b"range separation challenge"),
        t.challenge(b"logic separation challenge"),
        t.challenge(b"fixed base separation challenge"),
        t.challenge(b"variable base separation challenge"),
    ];
    // public input polynomial
    let mut dense = vec![BlsScalar::zero(); n];
    for (row, v) in vk.pi_rows.iter().zip(pi) {
        if (*row as usize) < n {
            dense[*row as usize] = *v;
        }
    }
    let pip = rf::idft(&dense, n);
    // quotient on the coset of the 8n domain
    let big = 8 * n;
    let wb = rf::root_of_unity(big);
    let n_f = sc(n as u64);
    let (k1, k2, k3) = (sc(7), sc(13), sc(17));
    let mut tv = Vec::with_capacity(big);
    let mut x = GENERATOR;
    for _ in 0..big {
        let xo = x * omega;
        let w: [BlsScalar; 4] = core::array::from_fn(|k| rf::horner(&wp[k], &x));
        let wn = [rf::horner(&wp[0], &xo), rf::horner(&wp[1], &xo), rf::horner(&wp[3], &xo)];
        let q = selectors_at(key, &x);
        let s: [BlsScalar; 4] = core::array::from_fn(|k| rf::horner(&key.polys[P_S1 + k], &x));
        let zx = rf::horner(&zp, &x);
        let zxo = rf::horner(&zp, &xo);
        let zh = rf::pow(&x, n as u64) - BlsScalar::one();
        let l1 = zh * (n_f * (x - BlsScalar::one())).invert().unwrap();
        let gates = gate_terms(&q, w, wn, &seps) + rf::horner(&pip, &x);
        let id = (w[0] + beta * x + gamma) * (w[1] + beta * k1 * x + gamma) * (w[2] + beta * k2 * x + gamma) * (w[3] + beta * k3 * x + gamma) * zx * alpha;
        let cp = (w[0] + beta * s[0] + gamma) * (w[1] + beta * s[1] + gamma) * (w[2] + beta * s[2] + gamma) * (w[3] + beta * s[3] + gamma) * zxo * alpha;
        let first = (zx - BlsScalar::one()) * l1 * alpha * alpha;
        tv.push((gates + id - cp + first) * zh.invert().unwrap());
        x *= wb;
    }
    let mut tq = rf::coset_idft(&tv, big);
    let clean = tq.iter().skip(4 * n + 7).all(|c| *c == BlsScalar::zero()) && rf::trim(tq.clone()).len() <= 7 * n;
    if !clean && !drop_remainder {
        return None;
    }
    tq.truncate(4 * n + 7);
    let tq = rf::trim(tq);
    if tq.len() < 3 * n {
        return None;
    }
    let [b12, b13, b14] = bl.quotient;
    let mut t_lo = tq[0..n].to_vec();
    let mut t_mid = tq[n..2 * n].to_vec();
    let mut t_hi = tq[2 * n..3 * n].to_vec();
    let mut t_4 = tq[3 * n..].to_vec();
    if t_4.is_empty() {
        t_4.push(BlsScalar::zero());
    }
    t_lo.push(b12);
    t_mid[0] -= b12;
    t_mid.push(b13);
    t_hi[0] -= b13;
    t_hi.push(b14);
    t_4[0] -= b14;
    let tc = [comm(&t_lo), comm(&t_mid), comm(&t_hi), comm(&t_4)];
    t.point(b"t_low_comm", &tc[0]);
    t.point(b"t_mid_comm", &tc[1]);
    t.point(b"t_high_comm", &tc[2]);
    t.point(b"t_fourth_comm", &tc[3]);
    let z = t.challenge(b"z_challenge");
    let zo = z * omega;
    let ev = |p: &[BlsScalar], x: &BlsScalar| rf::horner(p, x);
    // evaluations in proof order: a b c d a_w b_w d_w q_arith q_c q_l q_r s1 s2 s3 z_eval
    let mut e: [BlsScalar; 15] = [
        ev(&wp[0], &z), ev(&wp[1], &z), ev(&wp[2], &z), ev(&wp[3], &z),
        ev(&wp[0], &zo), ev(&wp[1], &zo), ev(&wp[3], &zo),
        ev(&key.polys[P_QARITH], &z), ev(&key.polys[P_QC], &z), ev(&key.polys[P_QL], &z), ev(&key.polys[P_QR], &z),
        ev(&key.polys[P_S1], &z), ev(&key.polys[P_S2], &z), ev(&key.polys[P_S3], &z),
        ev(&zp, &zo),
    ];
    let zh_z = rf::pow(&z, n as u64) - BlsScalar::one();
    let l1_z = zh_z * (n_f * (z - BlsScalar::one())).invert()?;
    let pi_z = rf::horner(&pip, &z);
    let zn = zh_z + BlsScalar::one();
    let mut quot = t_lo.clone();
    quot = rf::add(&quot, &rf::scale(&t_mid, &zn));
    quot = rf::add(&quot, &rf::scale(&t_hi, &(zn * zn)));
    quot = rf::add(&quot, &rf::scale(&t_4, &(zn * zn * zn)));
    // linearisation polynomial for a given evaluation vector: the gate
    // identities are linear in one selector polynomial each once the wire
    // evaluations are fixed
    let lin = |e: &[BlsScalar; 15]| -> Vec<BlsScalar> {
        let (a_e, b_e, c_e, d_e, aw_e, bw_e, dw_e, qa_e, qc_e, ql_e, qr_e, s1_e, s2_e, s3_e, z_e) =
            (e[0], e[1], e[2], e[3], e[4], e[5], e[6], e[7], e[8], e[9], e[10], e[11], e[12], e[13], e[14]);
        let mut r: Vec<BlsScalar> = Vec::new();
        let add_scaled = |acc: &mut Vec<BlsScalar>, p: &[BlsScalar], k: &BlsScalar| {
            *acc = rf::add(acc, &rf::scale(p, k));
        };
        add_scaled(&mut r, &key.polys[P_QM], &(a_e * b_e * qa_e));
        add_scaled(&mut r, &key.polys[P_QL], &(a_e * qa_e));
        add_scaled(&mut r, &key.polys[P_QR], &(b_e * qa_e));
        add_scaled(&mut r, &key.polys[P_QO], &(c_e * qa_e));
        add_scaled(&mut r, &key.polys[P_QF], &(d_e * qa_e));
        add_scaled(&mut r, &key.polys[P_QC], &qa_e);
        // each custom widget with its own selector set to 1 and the others 0
        let mut q = [BlsScalar::zero(); 11];
        q[1] = ql_e;
        q[2] = qr_e;
        q[5] = qc_e;
        for (slot, pidx) in [(8usize, P_QRANGE), (7, P_QLOGIC), (9, P_QFIXED), (10, P_QVAR)] {
            let mut qq = q;
            qq[slot] = BlsScalar::one();
            let coeff = gate_terms(&qq, [a_e, b_e, c_e, d_e], [aw_e, bw_e, dw_e], &seps);
            add_scaled(&mut r, &key.polys[pidx], &coeff);
        }
        r = rf::add(&r, &[pi_z]);
        let idc = (a_e + beta * z + gamma) * (b_e + beta * k1 * z + gamma) * (c_e + beta * k2 * z + gamma) * (d_e + beta * k3 * z + gamma) * alpha;
        add_scaled(&mut r, &zp, &(idc + l1_z * alpha * alpha));
        let cpc = (a_e + beta * s1_e + gamma) * (b_e + beta * s2_e + gamma) * (c_e + beta * s3_e + gamma) * beta * z_e * alpha;
        add_scaled(&mut r, &key.polys[P_S4], &-cpc);
        rf::add(&r, &rf::scale(&quot, &-zh_z))
    };
    // the scalar balance of the verification equation: zero for honest proofs
    let balance = |e: &[BlsScalar; 15]| -> BlsScalar {
        rf::horner(&lin(e), &z)
            - alpha * alpha * l1_z
            - alpha * (e[0] + beta * e[11] + gamma) * (e[1] + beta * e[12] + gamma) * (e[2] + beta * e[13] + gamma) * (e[3] + gamma) * e[14]
    };
    let mut solved = None;
    if let Some(k) = forge_eval {
        // solve evaluation k so that the scalar equation balances (only when
        // the balance is affine in it with a non-zero slope)
        let g0 = balance(&e);
        let mut e1 = e;
        e1[k] += BlsScalar::one();
        let g1 = balance(&e1);
        let mut e2 = e;
        e2[k] += BlsScalar::from(2u64);
        let g2 = balance(&e2);
        let slope = g1 - g0;
        if g2 - g1 == slope && slope != BlsScalar::zero() && g0 != BlsScalar::zero() {
            e[k] -= g0 * slope.invert().unwrap();
            solved = Some(balance(&e) == BlsScalar::zero());
        }
    }
    let (a_e, b_e, c_e, d_e, aw_e, bw_e, dw_e, qa_e, qc_e, ql_e, qr_e, s1_e, s2_e, s3_e, z_e) =
        (e[0], e[1], e[2], e[3], e[4], e[5], e[6], e[7], e[8], e[9], e[10], e[11], e[12], e[13], e[14]);
    t.scalar(b"a_eval", &a_e);
    t.scalar(b"b_eval", &b_e);
    t.scalar(b"c_eval", &c_e);
    t.scalar(b"d_eval", &d_e);
    t.scalar(b"s_sigma_1_eval", &s1_e);
    t.scalar(b"s_sigma_2_eval", &s2_e);
    t.scalar(b"s_sigma_3_eval", &s3_e);
    t.scalar(b"z_eval", &z_e);
    t.scalar(b"a_w_eval", &aw_e);
    t.scalar(b"b_w_eval", &bw_e);
    t.scalar(b"d_w_eval", &dw_e);
    t.scalar(b"q_arith_eval", &qa_e);
    t.scalar(b"q_c_eval", &qc_e);
    t.scalar(b"q_l_eval", &ql_e);
    t.scalar(b"q_r_eval", &qr_e);
    let v = t.challenge(b"v_challenge");
    let v_w = t.challenge(b"v_w_challenge");
    let r = lin(&e);
    // opening witnesses
    let at_z: Vec<&[BlsScalar]> = match version {
        Version::V1 => vec![&r, &wp[0], &wp[1], &wp[2], &wp[3], &key.polys[P_S1], &key.polys[P_S2], &key.polys[P_S3]],
        _ => vec![&r, &wp[0], &wp[1], &wp[2], &wp[3], &key.polys[P_S1], &key.polys[P_S2], &key.polys[P_S3],
            &key.polys[P_QARITH], &key.polys[P_QC], &key.polys[P_QL], &key.polys[P_QR]],
    };
    let mut agg: Vec<BlsScalar> = Vec::new();
    let mut pw = BlsScalar::one();
    for p in at_z {
        agg = rf::add(&agg, &rf::scale(p, &pw));
        pw *= v;
    }
    let w_z = comm(&rf::div_linear(&agg, &z).0);
    let mut agg: Vec<BlsScalar> = Vec::new();
    let mut pw = BlsScalar::one();
    for p in [&zp, &wp[0], &wp[1], &wp[3]] {
        agg = rf::add(&agg, &rf::scale(p, &pw));
        pw *= v_w;
    }
    let w_zw = comm(&rf::div_linear(&agg, &zo).0);
    let mut out = Vec::with_capacity(1008);
    for p in [wc[0], wc[1], wc[2], wc[3], zc, tc[0], tc[1], tc[2], tc[3], w_z, w_zw] {
        out.extend_from_slice(&p.to_bytes());
    }
    for s in [a_e, b_e, c_e, d_e, aw_e, bw_e, dw_e, qa_e, qc_e, ql_e, qr_e, s1_e, s2_e, s3_e, z_e] {
        out.extend_from_slice(&s.to_bytes());
    }
    Some(Built { proof: out, tr: Transcripted { beta, gamma, alpha, seps, z, v, v_w }, quotient_remainder_free: clean, solved })
}

pub fn prove(key: &KeyPolys, powers: &[G1Affine], vk: &VKey, wires: &Wires, pi: &[BlsScalar], bl: &Blinders, version: Version) -> Option<Vec<u8>> {
    prove_full(key, powers, vk, wires, pi, bl, version, false, None, None).map(|b| b.proof)
}
