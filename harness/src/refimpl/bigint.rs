//! R-INT: small fixed-width unsigned integers (320 bits) for "integer
//! semantics": canonical value of a scalar, value + m*r, digit expansions.

use dusk_bls12_381::BlsScalar;
use dusk_bytes::Serializable;

#[derive(Clone, Copy, Debug, PartialEq, Eq, PartialOrd, Ord, Default)]
pub struct U320(pub [u64; 5]); // little-endian limbs; Ord derives compare limb 0 first, so use cmp() below

impl U320 {
    pub const ZERO: U320 = U320([0; 5]);

    pub fn from_u64(v: u64) -> Self {
        U320([v, 0, 0, 0, 0])
    }

    pub fn from_scalar(s: &BlsScalar) -> Self {
        let b = s.to_bytes();
        let mut l = [0u64; 5];
        for i in 0..4 {
            l[i] = u64::from_le_bytes(b[8 * i..8 * i + 8].try_into().unwrap());
        }
        U320(l)
    }

    /// the scalar field modulus r
    pub fn r() -> Self {
        Self::from_scalar(&-BlsScalar::one()).add(&Self::from_u64(1))
    }

    pub fn pow2(k: usize) -> Self {
        let mut l = [0u64; 5];
        l[k / 64] = 1u64 << (k % 64);
        U320(l)
    }

    pub fn add(&self, o: &Self) -> Self {
        let mut out = [0u64; 5];
        let mut c = 0u128;
        for i in 0..5 {
            let s = self.0[i] as u128 + o.0[i] as u128 + c;
            out[i] = s as u64;
            c = s >> 64;
        }
        U320(out)
    }

    /// self - o, None if negative
    pub fn checked_sub(&self, o: &Self) -> Option<Self> {
        if self.lt(o) {
            return None;
        }
        let mut out = [0u64; 5];
        let mut b = 0i128;
        for i in 0..5 {
            let d = self.0[i] as i128 - o.0[i] as i128 - b;
            if d < 0 {
                out[i] = (d + (1i128 << 64)) as u64;
                b = 1;
            } else {
                out[i] = d as u64;
                b = 0;
            }
        }
        Some(U320(out))
    }

    pub fn cmp_(&self, o: &Self) -> std::cmp::Ordering {
        for i in (0..5).rev() {
            if self.0[i] != o.0[i] {
                return self.0[i].cmp(&o.0[i]);
            }
        }
        std::cmp::Ordering::Equal
    }

    pub fn lt(&self, o: &Self) -> bool {
        self.cmp_(o) == std::cmp::Ordering::Less
    }

    pub fn bit(&self, i: usize) -> u64 {
        if i >= 320 {
            0
        } else {
            (self.0[i / 64] >> (i % 64)) & 1
        }
    }

    pub fn bits(&self) -> usize {
        for i in (0..320).rev() {
            if self.bit(i) == 1 {
                return i + 1;
            }
        }
        0
    }

    pub fn shr(&self, k: usize) -> Self {
        let mut out = U320::ZERO;
        for i in k..320 {
            if self.bit(i) == 1 {
                out.0[(i - k) / 64] |= 1u64 << ((i - k) % 64);
            }
        }
        out
    }

    /// self mod 2^k
    pub fn low_bits(&self, k: usize) -> Self {
        let mut out = U320::ZERO;
        for i in 0..k.min(320) {
            if self.bit(i) == 1 {
                out.0[i / 64] |= 1u64 << (i % 64);
            }
        }
        out
    }

    /// the field element this integer reduces to
    pub fn to_scalar(&self) -> BlsScalar {
        // sum limb_i * 2^(64 i) in the field
        let mut acc = BlsScalar::zero();
        for i in (0..5).rev() {
            acc *= BlsScalar::pow_of_2(64);
            acc += BlsScalar::from(self.0[i]);
        }
        acc
    }
}

/// integer value of a canonical scalar AND/XOR another on the low `bits` bits
pub fn bitop(a: &BlsScalar, b: &BlsScalar, bits: usize, xor: bool) -> BlsScalar {
    let (ua, ub) = (U320::from_scalar(a), U320::from_scalar(b));
    let mut out = U320::ZERO;
    for i in 0..bits {
        let (x, y) = (ua.bit(i), ub.bit(i));
        let z = if xor { x ^ y } else { x & y };
        if z == 1 {
            out.0[i / 64] |= 1u64 << (i % 64);
        }
    }
    out.to_scalar()
}
