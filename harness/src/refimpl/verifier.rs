//! R-VER: textbook PLONK verifier (with the five custom-gate linearisation
//! terms of this protocol) working from bytes: `Verifier::to_bytes()`,
//! `Proof::to_bytes()` and the public inputs. Uses only merlin and the
//! primitive field / group / pairing operations of dusk-bls12_381; every
//! scalar multiplication is done separately (no MSM, no regrouping) and the
//! final check is two independent `pairing` calls.

use std::collections::HashMap;
use std::sync::{Mutex, OnceLock};

use dusk_bls12_381::{pairing, BlsScalar, G1Affine, G1Projective, G2Affine};
use dusk_bytes::Serializable;
use dusk_jubjub::EDWARDS_D;
use merlin::Transcript;

use super::fft::{pow, root_of_unity};

#[derive(Clone, Copy, Debug, PartialEq, Eq)]
pub enum Version {
    V1,
    V2,
    V3,
}

#[derive(Clone, Debug, PartialEq, Eq)]
pub enum Decision {
    Accept,
    Reject(&'static str),
    BadVerifier(&'static str),
    BadProof(&'static str),
}

impl Decision {
    pub fn accepts(&self) -> bool {
        matches!(self, Decision::Accept)
    }
}

#[derive(Clone, Debug)]
pub struct VKey {
    pub label: Vec<u8>,
    pub size_field: u64,
    pub constraints: u64,
    pub n: u64,
    /// q_m q_l q_r q_o q_f q_c q_arith q_logic q_range q_fixed q_var s1 s2 s3 s4
    pub comms: [G1Affine; 15],
    pub g: G1Affine,
    pub h: G2Affine,
    pub x_h: G2Affine,
    pub pi_rows: Vec<u64>,
}

pub const VK_Q_M: usize = 0;
pub const VK_Q_L: usize = 1;
pub const VK_Q_R: usize = 2;
pub const VK_Q_O: usize = 3;
pub const VK_Q_F: usize = 4;
pub const VK_Q_C: usize = 5;
pub const VK_Q_ARITH: usize = 6;
pub const VK_Q_LOGIC: usize = 7;
pub const VK_Q_RANGE: usize = 8;
pub const VK_Q_FIXED: usize = 9;
pub const VK_Q_VAR: usize = 10;
pub const VK_S1: usize = 11;
pub const VK_S2: usize = 12;
pub const VK_S3: usize = 13;
pub const VK_S4: usize = 14;

fn be64(b: &[u8]) -> u64 {
    let mut a = [0u8; 8];
    a.copy_from_slice(&b[..8]);
    u64::from_be_bytes(a)
}

fn le64(b: &[u8]) -> u64 {
    let mut a = [0u8; 8];
    a.copy_from_slice(&b[..8]);
    u64::from_le_bytes(a)
}

fn g1(b: &[u8]) -> Option<G1Affine> {
    let mut a = [0u8; 48];
    a.copy_from_slice(&b[..48]);
    G1Affine::from_bytes(&a).ok()
}

fn g2(b: &[u8]) -> Option<G2Affine> {
    let mut a = [0u8; 96];
    a.copy_from_slice(&b[..96]);
    G2Affine::from_bytes(&a).ok()
}

fn scalar(b: &[u8]) -> Option<BlsScalar> {
    let mut a = [0u8; 32];
    a.copy_from_slice(&b[..32]);
    Option::from(BlsScalar::from_bytes(&a))
}

pub fn parse_verifier(bytes: &[u8]) -> Result<VKey, &'static str> {
    if bytes.len() < 48 {
        return Err("short header");
    }
    let label_len = be64(&bytes[0..]) as usize;
    let vk_len = be64(&bytes[8..]) as usize;
    let ok_len = be64(&bytes[16..]) as usize;
    let pi_len = be64(&bytes[24..]) as usize;
    let size_field = be64(&bytes[32..]);
    let constraints = be64(&bytes[40..]);
    let body = &bytes[48..];
    let pi_bytes = pi_len.checked_mul(8).ok_or("pi length overflow")?;
    let need = label_len
        .checked_add(vk_len)
        .and_then(|x| x.checked_add(ok_len))
        .and_then(|x| x.checked_add(pi_bytes))
        .ok_or("length overflow")?;
    if body.len() < need {
        return Err("truncated");
    }
    let label = body[..label_len].to_vec();
    let vk = &body[label_len..label_len + vk_len];
    let ok = &body[label_len + vk_len..label_len + vk_len + ok_len];
    let pis = &body[label_len + vk_len + ok_len..label_len + vk_len + ok_len + pi_bytes];
    if vk.len() < 8 + 20 * 48 {
        return Err("verifier key too short");
    }
    let n = le64(vk);
    let mut comms = [G1Affine::identity(); 15];
    for (i, c) in comms.iter_mut().enumerate() {
        *c = g1(&vk[8 + 48 * i..]).ok_or("bad verifier-key commitment")?;
    }
    if ok.len() < 240 {
        return Err("opening key too short");
    }
    let g = g1(&ok[0..]).ok_or("bad g")?;
    let h = g2(&ok[48..]).ok_or("bad h")?;
    let x_h = g2(&ok[144..]).ok_or("bad x_h")?;
    if bool::from(g.is_identity()) || bool::from(h.is_identity()) || bool::from(x_h.is_identity()) {
        return Err("identity in opening key");
    }
    // domain must exist: 2^k >= n with k < 32
    let size = (n as usize).checked_next_power_of_two().ok_or("domain too large")?;
    if size.trailing_zeros() >= 32 {
        return Err("domain too large");
    }
    let pi_rows = pis.chunks_exact(8).map(be64).collect();
    Ok(VKey { label, size_field, constraints, n, comms, g, h, x_h, pi_rows })
}

#[derive(Clone, Debug)]
pub struct PProof {
    pub a: G1Affine,
    pub b: G1Affine,
    pub c: G1Affine,
    pub d: G1Affine,
    pub z: G1Affine,
    pub t: [G1Affine; 4],
    pub w_z: G1Affine,
    pub w_zw: G1Affine,
    /// a b c d a_w b_w d_w q_arith q_c q_l q_r s1 s2 s3 z_eval
    pub e: [BlsScalar; 15],
}

pub const E_A: usize = 0;
pub const E_B: usize = 1;
pub const E_C: usize = 2;
pub const E_D: usize = 3;
pub const E_AW: usize = 4;
pub const E_BW: usize = 5;
pub const E_DW: usize = 6;
pub const E_QARITH: usize = 7;
pub const E_QC: usize = 8;
pub const E_QL: usize = 9;
pub const E_QR: usize = 10;
pub const E_S1: usize = 11;
pub const E_S2: usize = 12;
pub const E_S3: usize = 13;
pub const E_Z: usize = 14;

pub fn parse_proof(bytes: &[u8]) -> Result<PProof, &'static str> {
    if bytes.len() != 11 * 48 + 15 * 32 {
        return Err("proof length");
    }
    let mut pts = [G1Affine::identity(); 11];
    for (i, p) in pts.iter_mut().enumerate() {
        *p = g1(&bytes[48 * i..]).ok_or("bad proof commitment")?;
    }
    let mut e = [BlsScalar::zero(); 15];
    for (i, s) in e.iter_mut().enumerate() {
        *s = scalar(&bytes[11 * 48 + 32 * i..]).ok_or("non-canonical evaluation")?;
    }
    Ok(PProof {
        a: pts[0],
        b: pts[1],
        c: pts[2],
        d: pts[3],
        z: pts[4],
        t: [pts[5], pts[6], pts[7], pts[8]],
        w_z: pts[9],
        w_zw: pts[10],
        e,
    })
}

fn static_label(label: &[u8]) -> &'static [u8] {
    static CACHE: OnceLock<Mutex<HashMap<Vec<u8>, &'static [u8]>>> = OnceLock::new();
    let mut m = CACHE.get_or_init(|| Mutex::new(HashMap::new())).lock().unwrap();
    if let Some(l) = m.get(label) {
        return l;
    }
    let leaked: &'static [u8] = Box::leak(label.to_vec().into_boxed_slice());
    m.insert(label.to_vec(), leaked);
    leaked
}

pub struct Tr(pub Transcript);

impl Tr {
    pub fn point(&mut self, label: &'static [u8], p: &G1Affine) {
        self.0.append_message(label, &p.to_bytes());
    }
    pub fn scalar(&mut self, label: &'static [u8], s: &BlsScalar) {
        self.0.append_message(label, &s.to_bytes());
    }
    pub fn challenge(&mut self, label: &'static [u8]) -> BlsScalar {
        let mut buf = [0u8; 64];
        self.0.challenge_bytes(label, &mut buf);
        BlsScalar::from_bytes_wide(&buf)
    }
    pub fn domain_sep(&mut self, n: u64) {
        self.0.append_message(b"dom-sep", b"circuit_size");
        self.0.append_u64(b"n", n);
    }
}

/// Transcript after label, size, verifier key and public inputs.
pub fn seeded_transcript(vk: &VKey, pi: &[BlsScalar], version: Version) -> Tr {
    let mut t = Tr(Transcript::new(static_label(&vk.label)));
    t.domain_sep(vk.constraints);
    t.point(b"q_m", &vk.comms[VK_Q_M]);
    t.point(b"q_l", &vk.comms[VK_Q_L]);
    t.point(b"q_r", &vk.comms[VK_Q_R]);
    t.point(b"q_o", &vk.comms[VK_Q_O]);
    t.point(b"q_c", &vk.comms[VK_Q_C]);
    t.point(b"q_f", &vk.comms[VK_Q_F]);
    t.point(b"q_arith", &vk.comms[VK_Q_ARITH]);
    t.point(b"q_range", &vk.comms[VK_Q_RANGE]);
    t.point(b"q_logic", &vk.comms[VK_Q_LOGIC]);
    t.point(b"q_variable_group_add", &vk.comms[VK_Q_VAR]);
    t.point(b"q_fixed_group_add", &vk.comms[VK_Q_FIXED]);
    t.point(b"s_sigma_1", &vk.comms[VK_S1]);
    t.point(b"s_sigma_2", &vk.comms[VK_S2]);
    t.point(b"s_sigma_3", &vk.comms[VK_S3]);
    match version {
        Version::V3 => t.point(b"s_sigma_4", &vk.comms[VK_S4]),
        // the legacy transcript binds the first permutation commitment in the
        // fourth slot
        Version::V1 | Version::V2 => t.point(b"s_sigma_4", &vk.comms[VK_S1]),
    }
    t.domain_sep(vk.n);
    for p in pi {
        t.scalar(b"pi", p);
    }
    t
}

#[derive(Clone, Debug)]
pub struct Challenges {
    pub beta: BlsScalar,
    pub gamma: BlsScalar,
    pub alpha: BlsScalar,
    pub range: BlsScalar,
    pub logic: BlsScalar,
    pub fixed: BlsScalar,
    pub var: BlsScalar,
    pub z: BlsScalar,
    pub v: BlsScalar,
    pub v_w: BlsScalar,
    pub u: BlsScalar,
}

pub fn challenges(vk: &VKey, p: &PProof, pi: &[BlsScalar], version: Version) -> Challenges {
    let mut t = seeded_transcript(vk, pi, version);
    t.point(b"a_comm", &p.a);
    t.point(b"b_comm", &p.b);
    t.point(b"c_comm", &p.c);
    t.point(b"d_comm", &p.d);
    let beta = t.challenge(b"beta");
    t.scalar(b"beta", &beta);
    let gamma = t.challenge(b"gamma");
    t.point(b"z_comm", &p.z);
    let alpha = t.challenge(b"alpha");
    let range = t.challenge(b"range separation challenge");
    let logic = t.challenge(b"logic separation challenge");
    let fixed = t.challenge(b"fixed base separation challenge");
    let var = t.challenge(b"variable base separation challenge");
    t.point(b"t_low_comm", &p.t[0]);
    t.point(b"t_mid_comm", &p.t[1]);
    t.point(b"t_high_comm", &p.t[2]);
    t.point(b"t_fourth_comm", &p.t[3]);
    let z = t.challenge(b"z_challenge");
    t.scalar(b"a_eval", &p.e[E_A]);
    t.scalar(b"b_eval", &p.e[E_B]);
    t.scalar(b"c_eval", &p.e[E_C]);
    t.scalar(b"d_eval", &p.e[E_D]);
    t.scalar(b"s_sigma_1_eval", &p.e[E_S1]);
    t.scalar(b"s_sigma_2_eval", &p.e[E_S2]);
    t.scalar(b"s_sigma_3_eval", &p.e[E_S3]);
    t.scalar(b"z_eval", &p.e[E_Z]);
    t.scalar(b"a_w_eval", &p.e[E_AW]);
    t.scalar(b"b_w_eval", &p.e[E_BW]);
    t.scalar(b"d_w_eval", &p.e[E_DW]);
    t.scalar(b"q_arith_eval", &p.e[E_QARITH]);
    t.scalar(b"q_c_eval", &p.e[E_QC]);
    t.scalar(b"q_l_eval", &p.e[E_QL]);
    t.scalar(b"q_r_eval", &p.e[E_QR]);
    let v = t.challenge(b"v_challenge");
    let v_w = t.challenge(b"v_w_challenge");
    t.point(b"w_z_chall_comm", &p.w_z);
    t.point(b"w_z_chall_w_comm", &p.w_zw);
    let u = t.challenge(b"u_challenge");
    Challenges { beta, gamma, alpha, range, logic, fixed, var, z, v, v_w, u }
}

fn sc(v: u64) -> BlsScalar {
    BlsScalar::from(v)
}

fn quad(f: BlsScalar) -> BlsScalar {
    f * (f - sc(1)) * (f - sc(2)) * (f - sc(3))
}

fn mul(p: &G1Affine, s: &BlsScalar) -> G1Projective {
    G1Projective::from(*p) * *s
}

pub struct Pieces {
    pub z_h: BlsScalar,
    pub l1: BlsScalar,
    pub pi_z: BlsScalar,
    pub r0: BlsScalar,
    pub omega: BlsScalar,
    pub size: u64,
}

/// The scalar quantities of the verification equation.
pub fn scalar_pieces(vk: &VKey, p: &PProof, pi: &[BlsScalar], ch: &Challenges) -> Result<Pieces, &'static str> {
    let size = (vk.n as usize).next_power_of_two() as u64;
    let omega = root_of_unity(size as usize);
    let n_f = sc(size);
    let z_h = pow(&ch.z, size) - BlsScalar::one();
    let den = n_f * (ch.z - BlsScalar::one());
    let l1 = z_h * den.invert().ok_or("z = 1")?;
    let mut pi_z = BlsScalar::zero();
    for (row, v) in vk.pi_rows.iter().zip(pi) {
        if *v == BlsScalar::zero() {
            continue;
        }
        // L_row(z) = w^row (z^n - 1) / (n (z - w^row))
        let w_i = pow(&omega, *row);
        let d = (n_f * (ch.z - w_i)).invert().ok_or("z on a public-input root")?;
        pi_z += *v * w_i * z_h * d;
    }
    let e = &p.e;
    let r0 = pi_z
        - l1 * ch.alpha * ch.alpha
        - ch.alpha
            * (e[E_A] + ch.beta * e[E_S1] + ch.gamma)
            * (e[E_B] + ch.beta * e[E_S2] + ch.gamma)
            * (e[E_C] + ch.beta * e[E_S3] + ch.gamma)
            * (e[E_D] + ch.gamma)
            * e[E_Z];
    Ok(Pieces { z_h, l1, pi_z, r0, omega, size })
}

/// The linearisation commitment [D] (including the `u [z]` term of the
/// shifted opening and the quotient shares).
pub fn linearisation_commitment(vk: &VKey, p: &PProof, ch: &Challenges, pc: &Pieces) -> G1Projective {
    let e = &p.e;
    let one = BlsScalar::one();
    let mut d = G1Projective::identity();
    // arithmetic
    d += mul(&vk.comms[VK_Q_M], &(e[E_A] * e[E_B] * e[E_QARITH]));
    d += mul(&vk.comms[VK_Q_L], &(e[E_A] * e[E_QARITH]));
    d += mul(&vk.comms[VK_Q_R], &(e[E_B] * e[E_QARITH]));
    d += mul(&vk.comms[VK_Q_O], &(e[E_C] * e[E_QARITH]));
    d += mul(&vk.comms[VK_Q_F], &(e[E_D] * e[E_QARITH]));
    d += mul(&vk.comms[VK_Q_C], &e[E_QARITH]);
    // range
    {
        let k = ch.range * ch.range;
        let t = quad(e[E_C] - sc(4) * e[E_D])
            + k * quad(e[E_B] - sc(4) * e[E_C])
            + k * k * quad(e[E_A] - sc(4) * e[E_B])
            + k * k * k * quad(e[E_DW] - sc(4) * e[E_A]);
        d += mul(&vk.comms[VK_Q_RANGE], &(t * ch.range));
    }
    // logic
    {
        let k = ch.logic * ch.logic;
        let a = e[E_AW] - sc(4) * e[E_A];
        let b = e[E_BW] - sc(4) * e[E_B];
        let o = e[E_DW] - sc(4) * e[E_D];
        let w = e[E_C];
        let f = w * (w * (sc(4) * w - sc(18) * (a + b) + sc(81)) + sc(18) * (a * a + b * b) - sc(81) * (a + b) + sc(83));
        let ee = sc(3) * (a + b + o) - sc(2) * f;
        let bb = e[E_QC] * (sc(9) * o - sc(3) * (a + b));
        let g = bb + ee;
        let t = quad(a) + k * quad(b) + k * k * quad(o) + k * k * k * (w - a * b) + k * k * k * k * g;
        d += mul(&vk.comms[VK_Q_LOGIC], &(t * ch.logic));
    }
    // fixed-base
    {
        let k = ch.fixed * ch.fixed;
        let bit = e[E_DW] - e[E_D] - e[E_D];
        let x_beta = e[E_QL];
        let y_beta = e[E_QR];
        let y_alpha = bit * bit * (y_beta - one) + one;
        let x_alpha = bit * x_beta;
        let xy_alpha = e[E_C];
        let (ax, ay, ax_w, ay_w) = (e[E_A], e[E_B], e[E_AW], e[E_BW]);
        let bitc = bit * (bit - one) * (bit + one);
        let xyc = bit * e[E_QC] - xy_alpha;
        let xc = ax_w + ax_w * xy_alpha * ax * ay * EDWARDS_D - (ax * y_alpha + ay * x_alpha);
        let yc = ay_w - ay_w * xy_alpha * ax * ay * EDWARDS_D - (ay * y_alpha + ax * x_alpha);
        let t = bitc + k * xyc + k * k * xc + k * k * k * yc;
        d += mul(&vk.comms[VK_Q_FIXED], &(t * ch.fixed));
    }
    // variable-base
    {
        let k = ch.var * ch.var;
        let (x1, y1, x2, y2) = (e[E_A], e[E_B], e[E_C], e[E_D]);
        let (x3, y3, x1y2) = (e[E_AW], e[E_BW], e[E_DW]);
        let y1x2 = y1 * x2;
        let xy = x1 * y2 - x1y2;
        let xc = x1y2 + y1x2 - (x3 + x3 * EDWARDS_D * x1y2 * y1x2);
        let yc = y1 * y2 + x1 * x2 - (y3 - y3 * EDWARDS_D * x1y2 * y1x2);
        let t = xy + k * xc + k * k * yc;
        d += mul(&vk.comms[VK_Q_VAR], &(t * ch.var));
    }
    // permutation
    {
        let (k1, k2, k3) = (sc(7), sc(13), sc(17));
        let bz = ch.beta * ch.z;
        let x = (e[E_A] + bz + ch.gamma)
            * (e[E_B] + bz * k1 + ch.gamma)
            * (e[E_C] + bz * k2 + ch.gamma)
            * (e[E_D] + bz * k3 + ch.gamma)
            * ch.alpha;
        let r = pc.l1 * ch.alpha * ch.alpha;
        d += mul(&p.z, &(x + r + ch.u));
        let y = (e[E_A] + ch.beta * e[E_S1] + ch.gamma)
            * (e[E_B] + ch.beta * e[E_S2] + ch.gamma)
            * (e[E_C] + ch.beta * e[E_S3] + ch.gamma)
            * ch.beta
            * e[E_Z]
            * ch.alpha;
        d -= mul(&vk.comms[VK_S4], &y);
    }
    // quotient
    {
        let zn = pc.z_h + one;
        d -= mul(&p.t[0], &pc.z_h);
        d -= mul(&p.t[1], &(pc.z_h * zn));
        d -= mul(&p.t[2], &(pc.z_h * zn * zn));
        d -= mul(&p.t[3], &(pc.z_h * zn * zn * zn));
    }
    d
}

pub fn decide_parsed(vk: &VKey, p: &PProof, pi: &[BlsScalar], version: Version) -> Decision {
    if pi.len() != vk.pi_rows.len() {
        return Decision::Reject("public input count");
    }
    let ch = challenges(vk, p, pi, version);
    let pc = match scalar_pieces(vk, p, pi, &ch) {
        Ok(p) => p,
        Err(w) => return Decision::Reject(w),
    };
    let e = &p.e;
    let d = linearisation_commitment(vk, p, &ch, &pc);
    // batched openings
    let at_z: Vec<(G1Affine, BlsScalar)> = match version {
        Version::V1 => vec![
            (p.a, e[E_A]), (p.b, e[E_B]), (p.c, e[E_C]), (p.d, e[E_D]),
            (vk.comms[VK_S1], e[E_S1]), (vk.comms[VK_S2], e[E_S2]), (vk.comms[VK_S3], e[E_S3]),
        ],
        _ => vec![
            (p.a, e[E_A]), (p.b, e[E_B]), (p.c, e[E_C]), (p.d, e[E_D]),
            (vk.comms[VK_S1], e[E_S1]), (vk.comms[VK_S2], e[E_S2]), (vk.comms[VK_S3], e[E_S3]),
            (vk.comms[VK_Q_ARITH], e[E_QARITH]), (vk.comms[VK_Q_C], e[E_QC]),
            (vk.comms[VK_Q_L], e[E_QL]), (vk.comms[VK_Q_R], e[E_QR]),
        ],
    };
    let mut f = d;
    let mut e_scalar = -pc.r0;
    let mut vp = ch.v;
    for (c, y) in &at_z {
        f += mul(c, &vp);
        e_scalar += vp * y;
        vp *= ch.v;
    }
    // openings at z*omega: z (coefficient u, commitment term already in D), a, b, d
    e_scalar += ch.u * e[E_Z];
    let mut wp = ch.u * ch.v_w;
    for (c, y) in [(p.a, e[E_AW]), (p.b, e[E_BW]), (p.d, e[E_DW])] {
        f += mul(&c, &wp);
        e_scalar += wp * y;
        wp *= ch.v_w;
    }
    let lhs: G1Affine = (G1Projective::from(p.w_z) + mul(&p.w_zw, &ch.u)).into();
    let rhs: G1Affine = (mul(&p.w_z, &ch.z) + mul(&p.w_zw, &(ch.u * ch.z * pc.omega)) + f - mul(&vk.g, &e_scalar)).into();
    if pairing(&lhs, &vk.x_h) == pairing(&rhs, &vk.h) {
        Decision::Accept
    } else {
        Decision::Reject("pairing equation")
    }
}

pub fn decide(verifier_bytes: &[u8], proof_bytes: &[u8], pi: &[BlsScalar], version: Version) -> Decision {
    let vk = match parse_verifier(verifier_bytes) {
        Ok(v) => v,
        Err(w) => return Decision::BadVerifier(w),
    };
    let p = match parse_proof(proof_bytes) {
        Ok(p) => p,
        Err(w) => return Decision::BadProof(w),
    };
    decide_parsed(&vk, &p, pi, version)
}
