pub mod bigint;
pub mod fft;
pub mod jubjub;
pub mod kzg;
pub mod perm;
pub mod prover;
pub mod sat;
pub mod verifier;
