pub mod fft;
pub mod kzg;
pub mod sat;
pub mod verifier;
