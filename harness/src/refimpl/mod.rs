pub mod fft;
pub mod kzg;
