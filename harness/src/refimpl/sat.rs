//! R-SAT: row-by-row satisfiability of an instance against a compiled layout.
//!
//! layout  = selectors and wiring of the snapshot that was compiled
//! instance = wire values (through the instance's own wiring, as the prover
//!            reads them) and public inputs of the snapshot taken while
//!            proving.
//!
//! Identities are transcribed from the PLONK-with-custom-gates description
//! (arithmetic, base-4 range, logic, fixed-base and variable-base group
//! addition) — not from the crate's widget code. Next-row wires are read
//! cyclically over the padded power-of-two domain, padded rows are all-zero.

use std::collections::HashMap;

use dusk_bls12_381::BlsScalar;
use dusk_jubjub::EDWARDS_D;
use dusk_plonk::verif::Snapshot;

pub const Q_M: usize = 0;
pub const Q_L: usize = 1;
pub const Q_R: usize = 2;
pub const Q_O: usize = 3;
pub const Q_F: usize = 4;
pub const Q_C: usize = 5;
pub const Q_ARITH: usize = 6;
pub const Q_RANGE: usize = 7;
pub const Q_LOGIC: usize = 8;
pub const Q_FIXED: usize = 9;
pub const Q_VAR: usize = 10;

#[derive(Debug, Clone, PartialEq, Eq, Hash, PartialOrd, Ord)]
pub enum Comp {
    Arith,
    Range(u8),
    Logic(u8),
    Fixed(u8),
    Var(u8),
    Copy,
    Size,
}

impl Comp {
    pub fn name(&self) -> String {
        match self {
            Comp::Arith => "arith".into(),
            Comp::Range(i) => format!("range.{i}"),
            Comp::Logic(i) => format!("logic.{i}"),
            Comp::Fixed(i) => format!("fixed.{i}"),
            Comp::Var(i) => format!("var.{i}"),
            Comp::Copy => "copy".into(),
            Comp::Size => "size".into(),
        }
    }
}

#[derive(Debug, Clone, Default)]
pub struct SatReport {
    pub violated: Vec<(usize, Comp)>,
    pub rows: usize,
    pub domain: usize,
    /// number of rows with a non-zero custom or arithmetic selector
    pub selected_rows: usize,
}

impl SatReport {
    pub fn satisfied(&self) -> bool {
        self.violated.is_empty()
    }
    pub fn components(&self) -> Vec<Comp> {
        let mut c: Vec<Comp> = self.violated.iter().map(|(_, c)| c.clone()).collect();
        c.sort();
        c.dedup();
        c
    }
}

fn s(v: u64) -> BlsScalar {
    BlsScalar::from(v)
}

/// f (f-1)(f-2)(f-3): zero iff f in {0,1,2,3}
pub fn quad(f: BlsScalar) -> BlsScalar {
    f * (f - s(1)) * (f - s(2)) * (f - s(3))
}

/// The logic gate's selection polynomial. For quads a, b, their product w,
/// output quad o and switch q (+1 AND, -1 XOR) it vanishes exactly when
/// o = a AND b, respectively o = a XOR b.
///   F = w (w (4w - 18(a+b) + 81) + 18 (a^2 + b^2) - 81 (a+b) + 83)
///   E = 3 (a+b+o) - 2F
///   B = q (9 o - 3 (a+b))
pub fn logic_poly(a: BlsScalar, b: BlsScalar, w: BlsScalar, o: BlsScalar, q: BlsScalar) -> BlsScalar {
    let f = w * (w * (s(4) * w - s(18) * (a + b) + s(81)) + s(18) * (a * a + b * b) - s(81) * (a + b) + s(83));
    let e = s(3) * (a + b + o) - s(2) * f;
    let bb = q * (s(9) * o - s(3) * (a + b));
    bb + e
}

/// Truth-table self test of the transcription above: for all quads the
/// polynomial vanishes at exactly the right output.
pub fn logic_selftest() -> bool {
    for (q, is_xor) in [(BlsScalar::one(), false), (-BlsScalar::one(), true)] {
        for a in 0u64..4 {
            for b in 0u64..4 {
                let want = if is_xor { a ^ b } else { a & b };
                for o in 0u64..4 {
                    let z = logic_poly(s(a), s(b), s(a * b), s(o), q) == BlsScalar::zero();
                    if z != (o == want) {
                        return false;
                    }
                }
            }
        }
    }
    true
}

pub struct Wires {
    pub rows: usize,
    pub n: usize,
    /// per row: a, b, c, d (padded to n with zeros)
    pub w: Vec<[BlsScalar; 4]>,
    pub pi: Vec<BlsScalar>,
}

pub fn wires_of(inst: &Snapshot) -> Wires {
    let rows = inst.gates.len();
    let n = rows.next_power_of_two();
    let mut w = vec![[BlsScalar::zero(); 4]; n];
    for (i, g) in inst.gates.iter().enumerate() {
        for k in 0..4 {
            w[i][k] = inst.witnesses[g.w[k]];
        }
    }
    let mut pi = vec![BlsScalar::zero(); n];
    for (row, v) in &inst.public_inputs {
        if *row < n {
            pi[*row] = *v;
        }
    }
    Wires { rows, n, w, pi }
}

/// Evaluate all gate identities of `layout` on the wire table.
pub fn check_rows(layout: &Snapshot, wires: &Wires, out: &mut SatReport) {
    let n = wires.n;
    let zero = BlsScalar::zero();
    let one = BlsScalar::one();
    for i in 0..layout.gates.len().min(n) {
        let q = &layout.gates[i].sel;
        let [a, b, c, d] = wires.w[i];
        let nx = wires.w[(i + 1) % n];
        let (a_n, b_n, d_n) = (nx[0], nx[1], nx[3]);
        let mut any = false;
        // arithmetic (+ public input, which is added on every row)
        let arith = q[Q_ARITH] * (q[Q_M] * a * b + q[Q_L] * a + q[Q_R] * b + q[Q_O] * c + q[Q_F] * d + q[Q_C])
            + wires.pi[i];
        if arith != zero {
            out.violated.push((i, Comp::Arith));
        }
        any |= q[Q_ARITH] != zero;
        if q[Q_RANGE] != zero {
            any = true;
            let comps = [c - s(4) * d, b - s(4) * c, a - s(4) * b, d_n - s(4) * a];
            for (k, f) in comps.into_iter().enumerate() {
                if quad(f) != zero {
                    out.violated.push((i, Comp::Range(k as u8)));
                }
            }
        }
        if q[Q_LOGIC] != zero {
            any = true;
            let qa = a_n - s(4) * a;
            let qb = b_n - s(4) * b;
            let qo = d_n - s(4) * d;
            let comps = [quad(qa), quad(qb), quad(qo), c - qa * qb, logic_poly(qa, qb, c, qo, q[Q_C])];
            for (k, f) in comps.into_iter().enumerate() {
                if f != zero {
                    out.violated.push((i, Comp::Logic(k as u8)));
                }
            }
        }
        if q[Q_FIXED] != zero {
            any = true;
            // accumulator (a, b), scalar accumulator d, helper c = x_alpha*y_alpha
            // table point (q_l, q_r), its coordinate product q_c
            let bit = d_n - d - d;
            let x_beta = q[Q_L];
            let y_beta = q[Q_R];
            let xy_beta = q[Q_C];
            let y_alpha = bit * bit * (y_beta - one) + one;
            let x_alpha = bit * x_beta;
            let comps = [
                bit * (bit - one) * (bit + one),
                bit * xy_beta - c,
                a_n + a_n * c * a * b * EDWARDS_D - (a * y_alpha + b * x_alpha),
                b_n - b_n * c * a * b * EDWARDS_D - (b * y_alpha + a * x_alpha),
            ];
            for (k, f) in comps.into_iter().enumerate() {
                if f != zero {
                    out.violated.push((i, Comp::Fixed(k as u8)));
                }
            }
        }
        if q[Q_VAR] != zero {
            any = true;
            // (x1, y1) = (a, b), (x2, y2) = (c, d), next row: x3 = a, y3 = b, x1*y2 = d
            let (x1, y1, x2, y2) = (a, b, c, d);
            let (x3, y3, x1y2) = (a_n, b_n, d_n);
            let y1x2 = y1 * x2;
            let comps = [
                x1 * y2 - x1y2,
                x1y2 + y1x2 - (x3 + x3 * EDWARDS_D * x1y2 * y1x2),
                y1 * y2 + x1 * x2 - (y3 - y3 * EDWARDS_D * x1y2 * y1x2),
            ];
            for (k, f) in comps.into_iter().enumerate() {
                if f != zero {
                    out.violated.push((i, Comp::Var(k as u8)));
                }
            }
        }
        if any {
            out.selected_rows += 1;
        }
    }
    // rows of the instance beyond the layout do not exist (size mismatch is
    // reported separately); public inputs on padded rows would be violations
    for i in layout.gates.len()..n {
        if wires.pi[i] != zero {
            out.violated.push((i, Comp::Arith));
        }
    }
}

/// Copy constraints of the *layout*: all cells wired to one layout witness
/// hold one value in the instance.
pub fn check_copies(layout: &Snapshot, wires: &Wires, out: &mut SatReport) {
    let mut first: HashMap<usize, (usize, BlsScalar)> = HashMap::new();
    for (i, g) in layout.gates.iter().enumerate() {
        if i >= wires.n {
            break;
        }
        for k in 0..4 {
            let v = wires.w[i][k];
            match first.get(&g.w[k]) {
                None => {
                    first.insert(g.w[k], (i, v));
                }
                Some((_, v0)) => {
                    if *v0 != v {
                        out.violated.push((i, Comp::Copy));
                    }
                }
            }
        }
    }
}

/// Full check: layout vs instance.
pub fn check(layout: &Snapshot, inst: &Snapshot) -> SatReport {
    let wires = wires_of(inst);
    let mut rep = SatReport { rows: layout.gates.len(), domain: wires.n, ..Default::default() };
    if inst.gates.len() != layout.gates.len() {
        rep.violated.push((0, Comp::Size));
        return rep;
    }
    check_rows(layout, &wires, &mut rep);
    check_copies(layout, &wires, &mut rep);
    rep
}

/// Canonical layout: what the keys are a function of. Witnesses relabelled
/// by first use, so a change of witness numbering alone is not a difference.
#[derive(Debug, Clone, PartialEq, Eq, Hash)]
pub struct Canon {
    pub rows: Vec<([BlsScalar; 11], [usize; 4])>,
    pub pi_rows: Vec<usize>,
}

pub fn canonical(snap: &Snapshot) -> Canon {
    let mut relabel: HashMap<usize, usize> = HashMap::new();
    let mut rows = Vec::with_capacity(snap.gates.len());
    for g in &snap.gates {
        let mut w = [0usize; 4];
        for k in 0..4 {
            let next = relabel.len();
            w[k] = *relabel.entry(g.w[k]).or_insert(next);
        }
        rows.push((g.sel, w));
    }
    Canon { rows, pi_rows: snap.public_inputs.iter().map(|(r, _)| *r).collect() }
}

pub fn canon_digest(c: &Canon) -> String {
    use dusk_bytes::Serializable;
    let mut st = blake2b_simd::Params::new().hash_length(16).to_state();
    for (sel, w) in &c.rows {
        for x in sel {
            st.update(&x.to_bytes());
        }
        for x in w {
            st.update(&(*x as u64).to_le_bytes());
        }
    }
    st.update(b"pi");
    for r in &c.pi_rows {
        st.update(&(*r as u64).to_le_bytes());
    }
    hex::encode(st.finalize().as_bytes())
}

/// First difference between two canonical layouts, for reports.
pub fn canon_diff(a: &Canon, b: &Canon) -> String {
    if a.rows.len() != b.rows.len() {
        return format!("row count {} vs {}", a.rows.len(), b.rows.len());
    }
    for (i, (x, y)) in a.rows.iter().zip(&b.rows).enumerate() {
        if x.0 != y.0 {
            return format!("selectors differ on row {i}");
        }
        if x.1 != y.1 {
            return format!("wiring differs on row {i}: {:?} vs {:?}", x.1, y.1);
        }
    }
    if a.pi_rows != b.pi_rows {
        return format!("public input rows {:?} vs {:?}", a.pi_rows, b.pi_rows);
    }
    "equal".into()
}
