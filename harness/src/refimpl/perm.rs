//! R-PERM: the copy permutation and the grand-product polynomial's values,
//! from the layout's wiring.
//!
//! sigma maps every cell (row, wire) to the next cell wired to the same
//! witness, cells of a witness taken in row-major order (wires a, b, c, d
//! within a row) and cyclically; padded rows map to themselves. The wire
//! cosets are H, 7H, 13H, 17H.

use std::collections::HashMap;

use dusk_bls12_381::BlsScalar;
use dusk_plonk::verif::Snapshot;

use super::fft::root_of_unity;

pub const K: [u64; 4] = [1, 7, 13, 17];

/// sigma[wire][row] as a field element: K[wire'] * omega^row'
pub fn sigma_values(layout: &Snapshot) -> [Vec<BlsScalar>; 4] {
    let rows = layout.gates.len();
    let n = rows.next_power_of_two();
    let w = root_of_unity(n);
    let mut roots = Vec::with_capacity(n);
    let mut x = BlsScalar::one();
    for _ in 0..n {
        roots.push(x);
        x *= w;
    }
    // cells per witness in insertion order
    let mut cells: HashMap<usize, Vec<(usize, usize)>> = HashMap::new();
    for (i, g) in layout.gates.iter().enumerate() {
        for k in 0..4 {
            cells.entry(g.w[k]).or_default().push((i, k));
        }
    }
    let mut sigma: [Vec<BlsScalar>; 4] = core::array::from_fn(|k| (0..n).map(|i| BlsScalar::from(K[k]) * roots[i]).collect());
    for list in cells.values() {
        for (j, (row, wire)) in list.iter().enumerate() {
            let (nr, nw) = list[(j + 1) % list.len()];
            sigma[*wire][*row] = BlsScalar::from(K[nw]) * roots[nr];
        }
    }
    sigma
}

/// values z_0..z_{n-1} of the grand product: z_0 = 1,
/// z_{i+1} = z_i * prod_k (w_k,i + beta K_k omega^i + gamma) / (w_k,i + beta sigma_k,i + gamma)
pub fn grand_product(wires: &[[BlsScalar; 4]], sigma: &[Vec<BlsScalar>; 4], beta: &BlsScalar, gamma: &BlsScalar) -> Vec<BlsScalar> {
    let n = wires.len();
    let w = root_of_unity(n);
    let mut z = Vec::with_capacity(n);
    let mut acc = BlsScalar::one();
    let mut root = BlsScalar::one();
    for i in 0..n {
        z.push(acc);
        let mut num = BlsScalar::one();
        let mut den = BlsScalar::one();
        for k in 0..4 {
            num *= wires[i][k] + beta * BlsScalar::from(K[k]) * root + gamma;
            den *= wires[i][k] + beta * sigma[k][i] + gamma;
        }
        acc *= num * den.invert().unwrap_or(BlsScalar::zero());
        root *= w;
    }
    z
}

/// Value at `x` of the polynomial of degree < n taking `values` on the
/// subgroup (x outside the subgroup): sum_k v_k omega^k (x^n - 1) / (n (x - omega^k))
pub fn barycentric(values: &[BlsScalar], x: &BlsScalar) -> BlsScalar {
    let n = values.len();
    let w = root_of_unity(n);
    let zh = x.pow(&[n as u64, 0, 0, 0]) - BlsScalar::one();
    let n_inv = BlsScalar::from(n as u64).invert().unwrap();
    let mut acc = BlsScalar::zero();
    let mut root = BlsScalar::one();
    for v in values {
        if *v != BlsScalar::zero() {
            acc += *v * root * (*x - root).invert().unwrap_or(BlsScalar::zero());
        }
        root *= w;
    }
    acc * zh * n_inv
}
