//! R-JJ: expected results of the curve components from dusk-jubjub's native
//! arithmetic; subgroup membership by an own double-and-add over the bits of
//! the subgroup order; on-curve by the affine equation.

use dusk_bls12_381::BlsScalar;
use dusk_bytes::Serializable;
use dusk_jubjub::{JubJubAffine, JubJubExtended, JubJubScalar, EDWARDS_D};

/// order of the prime subgroup as a BLS scalar
pub fn subgroup_order() -> BlsScalar {
    BlsScalar::from(-JubJubScalar::one()) + BlsScalar::one()
}

pub fn on_curve(u: &BlsScalar, v: &BlsScalar) -> bool {
    // -u^2 + v^2 = 1 + d u^2 v^2
    let (u2, v2) = (u * u, v * v);
    v2 - u2 == BlsScalar::one() + EDWARDS_D * u2 * v2
}

/// [k]P by double-and-add over little-endian bytes (native group law)
pub fn multiply(p: &JubJubExtended, le_bytes: &[u8; 32]) -> JubJubExtended {
    let mut acc = JubJubExtended::identity();
    for byte in le_bytes.iter().rev() {
        for i in (0..8).rev() {
            acc = acc.double();
            if (byte >> i) & 1 == 1 {
                acc = acc + p;
            }
        }
    }
    acc
}

pub fn mul_scalar(p: &JubJubExtended, k: &BlsScalar) -> JubJubExtended {
    multiply(p, &k.to_bytes())
}

/// on the curve and killed by the subgroup order
pub fn in_subgroup(u: &BlsScalar, v: &BlsScalar) -> bool {
    if !on_curve(u, v) {
        return false;
    }
    let p = JubJubExtended::from(JubJubAffine::from_raw_unchecked(*u, *v));
    let q = JubJubAffine::from(multiply(&p, &subgroup_order().to_bytes()));
    q.get_u() == BlsScalar::zero() && q.get_v() == BlsScalar::one()
}

pub fn affine(p: &JubJubExtended) -> (BlsScalar, BlsScalar) {
    let a = JubJubAffine::from(*p);
    (a.get_u(), a.get_v())
}

pub fn from_uv(u: BlsScalar, v: BlsScalar) -> JubJubExtended {
    JubJubExtended::from(JubJubAffine::from_raw_unchecked(u, v))
}

/// The 8 torsion points (identity first), found by clearing the prime-order
/// part of decompressed curve points.
pub fn torsion_points() -> Vec<JubJubExtended> {
    let mut out: Vec<JubJubExtended> = vec![JubJubExtended::identity()];
    let r = subgroup_order().to_bytes();
    let mut seed = 1u64;
    while out.len() < 8 && seed < 4000 {
        seed += 1;
        let mut b = [0u8; 32];
        b[..8].copy_from_slice(&seed.to_le_bytes());
        let p: Option<JubJubAffine> = JubJubAffine::from_bytes(b).into();
        let Some(p) = p else { continue };
        let t = multiply(&JubJubExtended::from(p), &r);
        let mut cur = t;
        for _ in 0..8 {
            let ca = JubJubAffine::from(cur);
            if !out.iter().any(|q| JubJubAffine::from(*q) == ca) {
                out.push(cur);
            }
            cur = cur + t;
        }
    }
    out
}

/// 8^-1 mod the subgroup order, computed (not copied): r_j is odd, so
/// 8^-1 = ((r_j + 1)/2)^3.
pub fn eight_inv() -> JubJubScalar {
    let two_inv = JubJubScalar::from(2u64).invert().unwrap();
    two_inv * two_inv * two_inv
}
