//! R-KZG: naive commitments and direct pairing equations. Uses only group
//! operations and `pairing` of dusk-bls12_381.

use dusk_bls12_381::{pairing, BlsScalar, G1Affine, G1Projective, G2Affine};
use dusk_bytes::Serializable;

pub struct Srs {
    pub g: G1Affine,
    pub h: G2Affine,
    pub x_h: G2Affine,
    pub powers: Vec<G1Affine>,
}

/// Parse `PublicParameters::to_var_bytes()`: opening key (g | h | x_h) then
/// compressed G1 powers.
pub fn parse_srs(bytes: &[u8]) -> Option<Srs> {
    if bytes.len() < 240 || (bytes.len() - 240) % 48 != 0 {
        return None;
    }
    let g = g1(&bytes[0..48])?;
    let h = g2(&bytes[48..144])?;
    let x_h = g2(&bytes[144..240])?;
    let mut powers = Vec::new();
    for c in bytes[240..].chunks(48) {
        powers.push(g1(c)?);
    }
    Some(Srs { g, h, x_h, powers })
}

pub fn g1(b: &[u8]) -> Option<G1Affine> {
    let mut a = [0u8; 48];
    a.copy_from_slice(b);
    G1Affine::from_bytes(&a).ok()
}

pub fn g2(b: &[u8]) -> Option<G2Affine> {
    let mut a = [0u8; 96];
    a.copy_from_slice(b);
    G2Affine::from_bytes(&a).ok()
}

/// sum c_i * P_i, one scalar multiplication per term
pub fn naive_commit(powers: &[G1Affine], coeffs: &[BlsScalar]) -> G1Affine {
    let mut acc = G1Projective::identity();
    for (c, p) in coeffs.iter().zip(powers.iter()) {
        acc += G1Projective::from(*p) * *c;
    }
    acc.into()
}

pub fn lincomb(points: &[G1Affine], scalars: &[BlsScalar]) -> G1Affine {
    naive_commit(points, scalars)
}

/// e(C - y G + z W, H) == e(W, xH)
pub fn opening_holds(srs_g: &G1Affine, h: &G2Affine, x_h: &G2Affine, c: &G1Affine, y: &BlsScalar, z: &BlsScalar, w: &G1Affine) -> bool {
    let lhs: G1Affine = (G1Projective::from(*c) - G1Projective::from(*srs_g) * *y
        + G1Projective::from(*w) * *z)
        .into();
    pairing(&lhs, h) == pairing(w, x_h)
}

/// powers[i] = x * powers[i-1] for all i >= 1, checked with one random
/// linear combination and two pairings; powers[0] == g.
pub fn srs_consistent(srs: &Srs, rho: &[BlsScalar]) -> bool {
    if srs.powers.is_empty() || srs.powers[0] != srs.g {
        return false;
    }
    if srs.powers.len() == 1 {
        return true;
    }
    let n = srs.powers.len();
    let hi = lincomb(&srs.powers[1..n], &rho[..n - 1]);
    let lo = lincomb(&srs.powers[0..n - 1], &rho[..n - 1]);
    pairing(&hi, &srs.h) == pairing(&lo, &srs.x_h)
}
