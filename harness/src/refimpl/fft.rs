//! R-FFT / R-POLY: the O(n^2) definitions. Uses only field operations of
//! `dusk-bls12_381` and its published constants (ROOT_OF_UNITY, GENERATOR,
//! TWO_ADACITY).

use dusk_bls12_381::{BlsScalar, GENERATOR, ROOT_OF_UNITY, TWO_ADACITY};

pub fn pow(b: &BlsScalar, e: u64) -> BlsScalar {
    b.pow(&[e, 0, 0, 0])
}

/// primitive `size`-th root of unity for size = 2^k
pub fn root_of_unity(size: usize) -> BlsScalar {
    assert!(size.is_power_of_two());
    let k = size.trailing_zeros();
    let mut g = ROOT_OF_UNITY;
    for _ in k..TWO_ADACITY {
        g = g.square();
    }
    g
}

pub fn horner(c: &[BlsScalar], x: &BlsScalar) -> BlsScalar {
    let mut acc = BlsScalar::zero();
    for ci in c.iter().rev() {
        acc = acc * x + ci;
    }
    acc
}

/// out[i] = sum_j v[j] * w^(i*j), i in 0..size, over *all* of v (longer
/// inputs are evaluated as the polynomial they denote).
pub fn dft(v: &[BlsScalar], size: usize) -> Vec<BlsScalar> {
    let w = root_of_unity(size);
    let mut out = Vec::with_capacity(size);
    let mut wi = BlsScalar::one();
    for _ in 0..size {
        out.push(horner(v, &wi));
        wi *= w;
    }
    out
}

pub fn dft_at(v: &[BlsScalar], size: usize, i: usize) -> BlsScalar {
    let w = root_of_unity(size);
    horner(v, &pow(&w, i as u64))
}

/// coefficients c with sum_j c[j] w^(ij) = e[i]: c[j] = 1/n sum_i e[i] w^(-ij)
pub fn idft(e: &[BlsScalar], size: usize) -> Vec<BlsScalar> {
    let w_inv = root_of_unity(size).invert().unwrap();
    let n_inv = BlsScalar::from(size as u64).invert().unwrap();
    let mut padded = e.to_vec();
    padded.resize(size, BlsScalar::zero());
    let mut out = Vec::with_capacity(size);
    let mut wj = BlsScalar::one();
    for _ in 0..size {
        out.push(horner(&padded, &wj) * n_inv);
        wj *= w_inv;
    }
    out
}

pub fn coset_dft(v: &[BlsScalar], size: usize) -> Vec<BlsScalar> {
    let w = root_of_unity(size);
    let mut out = Vec::with_capacity(size);
    let mut x = GENERATOR;
    for _ in 0..size {
        out.push(horner(v, &x));
        x *= w;
    }
    out
}

pub fn coset_dft_at(v: &[BlsScalar], size: usize, i: usize) -> BlsScalar {
    let w = root_of_unity(size);
    horner(v, &(GENERATOR * pow(&w, i as u64)))
}

/// coefficients c with sum_j c[j] (g w^i)^j = e[i]
pub fn coset_idft(e: &[BlsScalar], size: usize) -> Vec<BlsScalar> {
    let mut c = idft(e, size);
    let g_inv = GENERATOR.invert().unwrap();
    let mut p = BlsScalar::one();
    for ci in c.iter_mut() {
        *ci *= p;
        p *= g_inv;
    }
    c
}

pub fn trim(mut v: Vec<BlsScalar>) -> Vec<BlsScalar> {
    while v.last().is_some_and(|c| *c == BlsScalar::zero()) {
        v.pop();
    }
    v
}

pub fn add(a: &[BlsScalar], b: &[BlsScalar]) -> Vec<BlsScalar> {
    let n = a.len().max(b.len());
    let mut out = vec![BlsScalar::zero(); n];
    for (i, x) in a.iter().enumerate() {
        out[i] += x;
    }
    for (i, x) in b.iter().enumerate() {
        out[i] += x;
    }
    trim(out)
}

pub fn sub(a: &[BlsScalar], b: &[BlsScalar]) -> Vec<BlsScalar> {
    let n = a.len().max(b.len());
    let mut out = vec![BlsScalar::zero(); n];
    for (i, x) in a.iter().enumerate() {
        out[i] += x;
    }
    for (i, x) in b.iter().enumerate() {
        out[i] -= x;
    }
    trim(out)
}

pub fn scale(a: &[BlsScalar], k: &BlsScalar) -> Vec<BlsScalar> {
    trim(a.iter().map(|x| x * k).collect())
}

pub fn mul(a: &[BlsScalar], b: &[BlsScalar]) -> Vec<BlsScalar> {
    if a.is_empty() || b.is_empty() {
        return Vec::new();
    }
    let mut out = vec![BlsScalar::zero(); a.len() + b.len() - 1];
    for (i, x) in a.iter().enumerate() {
        for (j, y) in b.iter().enumerate() {
            out[i + j] += x * y;
        }
    }
    trim(out)
}

/// Long division by (X - z): returns (quotient, remainder).
pub fn div_linear(a: &[BlsScalar], z: &BlsScalar) -> (Vec<BlsScalar>, BlsScalar) {
    let a = trim(a.to_vec());
    if a.is_empty() {
        return (Vec::new(), BlsScalar::zero());
    }
    let n = a.len();
    let mut q = vec![BlsScalar::zero(); n - 1];
    let mut carry = BlsScalar::zero();
    for i in (0..n).rev() {
        let t = a[i] + carry;
        if i == 0 {
            return (trim(q), t);
        }
        q[i - 1] = t;
        carry = t * z;
    }
    unreachable!()
}

/// L_i(tau) over the size-n subgroup by the product formula
/// prod_{j != i} (tau - w^j) / (w^i - w^j).
pub fn lagrange_product(size: usize, i: usize, tau: &BlsScalar) -> BlsScalar {
    let w = root_of_unity(size);
    let wi = pow(&w, i as u64);
    let mut num = BlsScalar::one();
    let mut den = BlsScalar::one();
    let mut wj = BlsScalar::one();
    for j in 0..size {
        if j != i {
            num *= tau - wj;
            den *= wi - wj;
        }
        wj *= w;
    }
    num * den.invert().unwrap()
}

/// Value at `tau` of the polynomial of degree < size interpolating `evals`
/// (padded with zeros) on the subgroup: interpolate, then evaluate.
pub fn interpolate_eval(evals: &[BlsScalar], size: usize, tau: &BlsScalar) -> BlsScalar {
    horner(&idft(evals, size), tau)
}
