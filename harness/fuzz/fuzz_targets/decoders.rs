//! libFuzzer target for the checked decoders (property C17): coverage-guided
//! byte strings instead of mutations of valid encodings. The first byte picks
//! the decoder, the rest is its input. The oracle is the one of `vh C17`
//! (totality, independent validity of accepted values, usability); a failure
//! is a panic, which libFuzzer records as a crash artifact. Allocation is
//! bounded by libFuzzer's -malloc_limit_mb, time by -timeout.
#![no_main]
#![allow(dead_code, unused_imports)]

#[path = "../../src/checks/mod.rs"]
mod checks;
#[path = "../../src/gen/mod.rs"]
mod gen;
#[path = "../../src/mon/mod.rs"]
mod mon;
#[path = "../../src/refimpl/mod.rs"]
mod refimpl;
#[path = "../../src/util.rs"]
mod util;

use libfuzzer_sys::fuzz_target;

fuzz_target!(init: checks::c17::fuzz_warm_up(), |data: &[u8]| {
    if data.is_empty() {
        return;
    }
    if let Err(why) = checks::c17::fuzz_one(data[0], &data[1..]) {
        panic!("C17-FUZZ-ORACLE {why}");
    }
});
